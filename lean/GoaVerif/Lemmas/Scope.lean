import GoaVerif.Model.Scope
import Std.Data.String.ToNat
/-! Helper lemmas for the NameScope model. -/
namespace GoaVerif.Scope

theorem get_isSome_iff (c : Counts) (k : String) : (c.get k).isSome = true ↔ k ∈ c.keys := by
  unfold Counts.get Counts.keys
  constructor
  · intro h
    cases hf : c.find? (fun e => e.1 == k) with
    | none => simp [hf] at h
    | some e =>
      have hm := List.mem_of_find?_eq_some hf
      have hk := List.find?_some hf
      simp only [beq_iff_eq] at hk
      exact List.mem_map.mpr ⟨e, hm, hk⟩
  · intro h
    obtain ⟨e, he, hk⟩ := List.mem_map.mp h
    cases hf : c.find? (fun e => e.1 == k) with
    | none =>
      have := List.find?_eq_none.mp hf e he
      simp [hk] at this
    | some e' => simp

theorem get_none_iff (c : Counts) (k : String) : c.get k = none ↔ k ∉ c.keys := by
  rw [← get_isSome_iff]
  cases c.get k <;> simp

theorem keys_incr (c : Counts) (k : String) :
    (c.incr k).keys = if k ∈ c.keys then c.keys else c.keys ++ [k] := by
  cases h : c.get k with
  | none =>
    have hk := (get_none_iff c k).mp h
    rw [if_neg hk]
    simp [Counts.incr, h, Counts.keys]
  | some n =>
    have hk : k ∈ c.keys := (get_isSome_iff c k).mp (by simp [h])
    rw [if_pos hk]
    simp only [Counts.incr, h, Counts.keys, List.map_map]
    apply List.map_congr_left
    intro e _
    simp only [Function.comp]
    split <;> rfl

theorem mem_keys_incr (c : Counts) (k x : String) : x ∈ (c.incr k).keys ↔ x ∈ c.keys ∨ x = k := by
  rw [keys_incr]
  split
  · rename_i h
    constructor
    · exact Or.inl
    · rintro (h1 | rfl)
      · exact h1
      · exact h
  · simp

theorem length_incr_keys (c : Counts) : c.keys.length = c.length := by simp [Counts.keys]

theorem append_left_cancel (n a b : String) (h : n ++ a = n ++ b) : a = b := by
  have := congrArg String.toList h
  simp only [String.toList_append] at this
  exact String.toList_inj.mp (List.append_cancel_left this)

theorem cand_inj (name : String) (i j : Nat) (h : cand name i = cand name j) : i = j := by
  unfold cand at h
  have := append_left_cancel _ _ _ h
  have := Nat.repr_injective (show (i + 1).repr = (j + 1).repr from this)
  omega

/-- either the probe returns a name that is not in use, or every candidate it tried is in use -/
theorem probe_spec (c : Counts) (name : String) (fuel i : Nat) :
    probe c name fuel i ∉ c.keys ∨ ∀ j, j < fuel → cand name (i + j) ∈ c.keys := by
  induction fuel generalizing i with
  | zero => right; intro j hj; omega
  | succ n ih =>
    unfold probe
    by_cases h : (c.get (cand name i)).isSome = true
    · simp only [h, ↓reduceIte]
      rcases ih (i + 1) with h1 | h1
      · exact Or.inl h1
      · right
        intro j hj
        cases j with
        | zero => simpa using (get_isSome_iff c _).mp h
        | succ j =>
          have := h1 j (by omega)
          rwa [show i + 1 + j = i + (j + 1) by omega] at this
    · simp only [h, Bool.false_eq_true, ↓reduceIte]
      left
      intro hm
      exact h ((get_isSome_iff c _).mpr hm)

/-- **The probe always finds a fresh name** with the fuel the model gives it: the candidates
    are pairwise distinct, so they cannot all be among the finitely many names in use. -/
theorem probe_fresh (c : Counts) (name : String) (i : Nat) :
    probe c name (c.length + 1) i ∉ c.keys := by
  rcases probe_spec c name (c.length + 1) i with h | h
  · exact h
  · exfalso
    let cands := (List.range (c.length + 1)).map (fun j => cand name (i + j))
    have hnd : cands.Nodup := by
      refine List.Pairwise.map _ ?_ (List.nodup_range (n := c.length + 1))
      intro a b hab heq
      have := cand_inj name _ _ heq
      omega
    have hsub : cands ⊆ c.keys := by
      intro x hx
      obtain ⟨j, hj, rfl⟩ := List.mem_map.mp hx
      exact h j (List.mem_range.mp hj)
    have := hnd.length_le_of_subset hsub
    simp only [cands, List.length_map, List.length_range, length_incr_keys] at this
    omega

theorem nodup_map_inj {α β : Type} (f : α → β) (l : List α) (hd : (l.map f).Nodup)
    (a b : α) (ha : a ∈ l) (hb : b ∈ l) (hf : f a = f b) : a = b := by
  induction l with
  | nil => simp at ha
  | cons x xs ih =>
    simp only [List.map_cons, List.nodup_cons, List.mem_map, not_exists, not_and] at hd
    rcases List.mem_cons.mp ha with rfl | ha'
    · rcases List.mem_cons.mp hb with rfl | hb'
      · rfl
      · exact absurd hf.symm (hd.1 b hb')
    · rcases List.mem_cons.mp hb with rfl | hb'
      · exact absurd hf (hd.1 a ha')
      · exact ih hd.2 ha' hb'

/-- what one `Unique` call guarantees -/
theorem unique_spec (s : Scope) (name : String) (sfx : Option String) :
    (unique s name sfx).2 ∉ s.counts.keys ∧
    (∀ x, x ∈ (unique s name sfx).1.counts.keys ↔ x ∈ s.counts.keys ∨ x = (unique s name sfx).2) ∧
    (unique s name sfx).1.names = s.names := by
  unfold unique
  cases h : s.counts.get name with
  | none =>
    exact ⟨(get_none_iff _ _).mp h, fun x => mem_keys_incr _ _ _, rfl⟩
  | some c =>
    cases sfx with
    | none => exact ⟨probe_fresh _ _ _, fun x => mem_keys_incr _ _ _, rfl⟩
    | some sf =>
      simp only
      cases h2 : s.counts.get (name ++ sf) with
      | none => exact ⟨(get_none_iff _ _).mp h2, fun x => mem_keys_incr _ _ _, rfl⟩
      | some c2 => exact ⟨probe_fresh _ _ _, fun x => mem_keys_incr _ _ _, rfl⟩

end GoaVerif.Scope
