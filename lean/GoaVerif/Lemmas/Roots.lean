import GoaVerif.Model.Eval
import GoaVerif.Lemmas.Eval
/-!
Lemmas for `roots_topo` (C11): `sortDependenciesR` as written (the `seen` table is only updated
when the walk descends) terminates within `2·|U|+1` nested calls over a finite universe `U`
closed under the dependency function, visits every dependency of every node it appends, appends
only reachable nodes and — when the dependency function is transitively closed and antisymmetric —
appends a node only after all its strict dependencies.
-/
namespace GoaVerif.Eval

variable (f : Name → List Name)

/-! ### the loop body, named -/

def stepR (fuel : Nat) (root : Name) (st : List Name × List Name) (d : Name) : List Name × List Name :=
  if st.1.contains d then st else sortR f fuel d (root :: st.1, st.2)

theorem sortR_zero (root : Name) (st : List Name × List Name) : sortR f 0 root st = (st.1, st.2 ++ [root]) := rfl

theorem sortR_succ (fuel : Nat) (root : Name) (st : List Name × List Name) :
    sortR f (fuel + 1) root st =
      (((f root).foldl (stepR f fuel root) st).1, ((f root).foldl (stepR f fuel root) st).2 ++ [root]) := rfl

/-! ### reachability -/

inductive Reach : Name → Name → Prop where
  | refl (a : Name) : Reach a a
  | head {a b c : Name} : b ∈ f a → Reach b c → Reach a c

theorem Reach.tail {a b c : Name} (h : Reach f a b) (hc : c ∈ f b) : Reach f a c := by
  induction h with
  | refl a => exact .head hc (.refl c)
  | head hb _ ih => exact .head hb (ih hc)

theorem Reach.trans {a b c : Name} (h1 : Reach f a b) (h2 : Reach f b c) : Reach f a c := by
  induction h1 with
  | refl a => exact h2
  | head hb _ ih => exact .head hb (ih h2)

/-- a set closed under `f` that contains `a` contains everything reachable from `a` -/
theorem Reach.mem_of_closed {a b : Name} (S : Name → Prop) (hcl : ∀ z, S z → ∀ y ∈ f z, S y) (ha : S a)
    (h : Reach f a b) : S b := by
  induction h with
  | refl a => exact ha
  | head hb _ ih => exact ih (hcl _ ha _ hb)

/-! ### the potential that bounds the nesting depth -/

def unseen (U seen : List Name) (x : Name) : Nat :=
  (U.filter fun u => !(seen.contains u) && u != x).length

def pot (U seen : List Name) (x : Name) : Nat :=
  2 * unseen U seen x + (if seen.contains x then 0 else 1)

theorem filter_length_le_of_imp {α} (p q : α → Bool) (l : List α) (h : ∀ a, q a = true → p a = true) :
    (l.filter q).length ≤ (l.filter p).length := by
  induction l with
  | nil => simp
  | cons a l ih =>
    simp only [List.filter_cons]
    cases hq : q a <;> cases hp : p a <;> simp <;> try omega
    · exact absurd (h a hq) (by simp [hp])

theorem filter_length_lt_of_imp {α} (p q : α → Bool) (l : List α) (h : ∀ a, q a = true → p a = true)
    (d : α) (hd : d ∈ l) (hpd : p d = true) (hqd : q d = false) :
    (l.filter q).length < (l.filter p).length := by
  induction l with
  | nil => simp at hd
  | cons a l ih =>
    simp only [List.filter_cons]
    rcases List.mem_cons.mp hd with rfl | hd'
    · have := filter_length_le_of_imp p q l h
      simp [hpd, hqd]; omega
    · have := ih hd'
      cases hq : q a <;> cases hp : p a <;> simp <;> try omega
      · exact absurd (h a hq) (by simp [hp])

theorem unseen_mono (U s1 s2 : List Name) (x : Name) (h : ∀ a ∈ s1, a ∈ s2) : unseen U s2 x ≤ unseen U s1 x := by
  unfold unseen
  apply filter_length_le_of_imp
  intro a ha
  simp at ha ⊢
  exact ⟨fun h1 => ha.1 (h a h1), ha.2⟩

theorem pot_mono (U s1 s2 : List Name) (x : Name) (h : ∀ a ∈ s1, a ∈ s2) : pot U s2 x ≤ pot U s1 x := by
  unfold pot
  have hu := unseen_mono U s1 s2 x h
  by_cases h1 : x ∈ s1
  · have h2 : x ∈ s2 := h x h1
    simp [h1, h2]; omega
  · by_cases h2 : x ∈ s2
    · simp [h1, h2]; omega
    · simp [h1, h2]; omega

/-- descending from `x` into an unseen `d` (after marking `x`) strictly lowers the potential -/
theorem pot_descent (U seen : List Name) (x d : Name) (hdU : d ∈ U) (hd : seen.contains d = false) :
    pot U (x :: seen) d < pot U seen x := by
  have hd' : d ∉ seen := by simpa using hd
  unfold pot
  by_cases hxd : d = x
  · subst hxd
    have hu : unseen U (d :: seen) d ≤ unseen U seen d := unseen_mono U seen (d :: seen) d (fun a ha => List.mem_cons_of_mem _ ha)
    simp [hd']; omega
  · -- d is counted on the right (not seen, ≠ x) and not on the left (≠ d fails)
    have hlt : unseen U (x :: seen) d < unseen U seen x := by
      unfold unseen
      apply filter_length_lt_of_imp _ _ U _ d hdU
      · simp [hd', hxd]
      · simp
      · intro a ha
        simp at ha ⊢
        exact ⟨ha.1.2, ha.1.1⟩
    have hdx : d ∉ x :: seen := by
      simp only [List.mem_cons, not_or]
      exact ⟨hxd, hd'⟩
    by_cases hxs : x ∈ seen
    · simp [hdx, hxs, hxd, hd']; omega
    · simp [hdx, hxs, hxd, hd']; omega

/-! ### invariants of the walk -/

/-- `stack`: the nodes whose calls are still active. Every seen node is already sorted or still
    active; every dependency of a sorted node is sorted or still active. -/
structure Inv (stack : List Name) (st : List Name × List Name) : Prop where
  seen_ok : ∀ y ∈ st.1, y ∈ st.2 ∨ y ∈ stack
  closed : ∀ z ∈ st.2, ∀ y ∈ f z, y ∈ st.2 ∨ y ∈ stack

theorem Inv.weaken {stack : List Name} {st : List Name × List Name} (x : Name) (h : Inv f stack st) :
    Inv f (x :: stack) st :=
  ⟨fun y hy => (h.seen_ok y hy).imp id (List.mem_cons_of_mem _),
   fun z hz y hy => (h.closed z hz y hy).imp id (List.mem_cons_of_mem _)⟩

/-- every occurrence of a node is preceded by all its strict dependencies -/
def GoodAux (pre : List Name) : List Name → Prop
  | [] => True
  | z :: q => (∀ y ∈ f z, y ≠ z → y ∈ pre) ∧ GoodAux (pre ++ [z]) q

def Good (l : List Name) : Prop := GoodAux f [] l

theorem goodAux_append (pre l : List Name) (x : Name) :
    GoodAux f pre (l ++ [x]) ↔ GoodAux f pre l ∧ (∀ y ∈ f x, y ≠ x → y ∈ pre ++ l) := by
  induction l generalizing pre with
  | nil => simp [GoodAux]
  | cons z q ih =>
    simp only [List.cons_append, GoodAux]
    rw [ih]
    simp only [List.append_assoc, List.singleton_append]
    constructor
    · rintro ⟨h1, h2, h3⟩; exact ⟨⟨h1, h2⟩, h3⟩
    · rintro ⟨⟨h1, h2⟩, h3⟩; exact ⟨h1, h2, h3⟩

/-- reading the order off a good list -/
theorem goodAux_split (pre p q : List Name) (z : Name) (h : GoodAux f pre (p ++ z :: q)) :
    ∀ y ∈ f z, y ≠ z → y ∈ pre ++ p := by
  induction p generalizing pre with
  | nil => simpa [GoodAux] using h.1
  | cons a p ih =>
    simp only [List.cons_append, GoodAux] at h
    intro y hy hne
    have := ih (pre ++ [a]) h.2 y hy hne
    simpa using this

def Trans : Prop := ∀ a b c, b ∈ f a → c ∈ f b → c ∈ f a
def Antisym : Prop := ∀ a b, b ∈ f a → a ≠ b → a ∉ f b

structure Post (x : Name) (stack : List Name) (st st' : List Name × List Name) : Prop where
  inv : Inv f stack st'
  ext : ∃ suf, st'.2 = st.2 ++ suf ∧ ∀ z ∈ suf, Reach f x z
  seen_mono : ∀ a ∈ st.1, a ∈ st'.1
  root_mem : x ∈ st'.2
  good : Trans f → Antisym f → (∀ s ∈ stack, s ≠ x → s ∉ f x) → Good f st.2 → Good f st'.2

structure LoopPost (x : Name) (stack : List Name) (st st' : List Name × List Name) (ds : List Name) : Prop where
  inv : Inv f (x :: stack) st'
  ext : ∃ suf, st'.2 = st.2 ++ suf ∧ ∀ z ∈ suf, Reach f x z
  seen_mono : ∀ a ∈ st.1, a ∈ st'.1
  deps : ∀ d ∈ ds, d ∈ st'.2 ∨ d ∈ x :: stack
  good : Trans f → Antisym f → (∀ s ∈ stack, s ≠ x → s ∉ f x) → Good f st.2 → Good f st'.2

/-- the loop over the dependencies of `x`, given the specification of the nested calls -/
theorem loop_post (U : List Name) (hU : ∀ x ∈ U, ∀ y ∈ f x, y ∈ U) (fuel : Nat)
    (ih : ∀ (x : Name) (stack : List Name) (st : List Name × List Name),
      x ∈ U → pot U st.1 x < fuel → Inv f stack st → Post f x stack st (sortR f fuel x st))
    (x : Name) (hx : x ∈ U) (stack : List Name) :
    ∀ (ds : List Name) (st : List Name × List Name), (∀ d ∈ ds, d ∈ f x) → Inv f (x :: stack) st →
      pot U st.1 x < fuel + 1 → LoopPost f x stack st (ds.foldl (stepR f fuel x) st) ds := by
  intro ds
  induction ds with
  | nil =>
    intro st _ hinv _
    exact ⟨hinv, ⟨[], by simp, by simp⟩, fun a ha => ha, by simp, fun _ _ _ h => h⟩
  | cons d ds ihds =>
    intro st hds hinv hpot
    simp only [List.foldl_cons]
    have hdx : d ∈ f x := hds d (List.mem_cons_self ..)
    have hds' : ∀ d' ∈ ds, d' ∈ f x := fun d' h => hds d' (List.mem_cons_of_mem _ h)
    by_cases hc : st.1.contains d = true
    · -- already seen: nothing happens
      have e : stepR f fuel x st d = st := by unfold stepR; rw [if_pos hc]
      rw [e]
      have r := ihds st hds' hinv hpot
      refine ⟨r.inv, r.ext, r.seen_mono, ?_, r.good⟩
      intro d' hd'
      rcases List.mem_cons.mp hd' with rfl | hd'
      · rcases hinv.seen_ok d' (by simpa using hc) with h | h
        · obtain ⟨suf, e2, _⟩ := r.ext
          exact Or.inl (by rw [e2]; exact List.mem_append_left _ h)
        · exact Or.inr h
      · exact r.deps d' hd'
    · -- descend into d
      have hc' : st.1.contains d = false := by simpa using hc
      have e : stepR f fuel x st d = sortR f fuel d (x :: st.1, st.2) := by unfold stepR; rw [if_neg hc]
      rw [e]
      have hdU : d ∈ U := hU x hx d hdx
      have hp : pot U (x :: st.1) d < fuel := by
        have := pot_descent U st.1 x d hdU hc'
        omega
      have hinv1 : Inv f (x :: stack) (x :: st.1, st.2) :=
        ⟨fun y hy => by
            rcases List.mem_cons.mp hy with rfl | hy
            · exact Or.inr (List.mem_cons_self ..)
            · exact hinv.seen_ok y hy,
         hinv.closed⟩
      have p1 := ih d (x :: stack) (x :: st.1, st.2) hdU hp hinv1
      have hsub : ∀ a ∈ st.1, a ∈ (sortR f fuel d (x :: st.1, st.2)).1 :=
        fun a ha => p1.seen_mono a (List.mem_cons_of_mem _ ha)
      have hpot1 : pot U (sortR f fuel d (x :: st.1, st.2)).1 x < fuel + 1 :=
        Nat.lt_of_le_of_lt (pot_mono U st.1 _ x hsub) hpot
      have r := ihds _ hds' p1.inv hpot1
      obtain ⟨suf1, e1, hr1⟩ := p1.ext
      obtain ⟨suf2, e2, hr2⟩ := r.ext
      refine ⟨r.inv, ⟨suf1 ++ suf2, ?_, ?_⟩, fun a ha => r.seen_mono a (hsub a ha), ?_, ?_⟩
      · rw [e2, e1]; simp
      · intro z hz
        rcases List.mem_append.mp hz with hz | hz
        · exact .head hdx (hr1 z hz)
        · exact hr2 z hz
      · intro d' hd'
        rcases List.mem_cons.mp hd' with rfl | hd'
        · exact Or.inl (by rw [e2]; exact List.mem_append_left _ p1.root_mem)
        · exact r.deps d' hd'
      · intro ht ha hac hg
        apply r.good ht ha hac
        apply p1.good ht ha ?_ hg
        intro s hs hsd
        by_cases hsx : s = x
        · rw [hsx] at hsd ⊢; exact ha x d hdx hsd
        · rcases List.mem_cons.mp hs with h | hs
          · exact absurd h hsx
          · exact fun hsfd => hac s hs hsx (ht x d s hdx hsfd)

/-- specification of `sortDependenciesR` -/
theorem sortR_post (U : List Name) (hU : ∀ x ∈ U, ∀ y ∈ f x, y ∈ U) :
    ∀ (fuel : Nat) (x : Name) (stack : List Name) (st : List Name × List Name),
      x ∈ U → pot U st.1 x < fuel → Inv f stack st → Post f x stack st (sortR f fuel x st) := by
  intro fuel
  induction fuel with
  | zero => intro x stack st _ h; exact absurd h (Nat.not_lt_zero _)
  | succ fuel ih =>
    intro x stack st hx hpot hinv
    rw [sortR_succ]
    have r := loop_post f U hU fuel ih x hx stack (f x) st (fun d h => h) (hinv.weaken f x) hpot
    obtain ⟨suf, e, hr⟩ := r.ext
    refine ⟨⟨?_, ?_⟩, ⟨suf ++ [x], ?_, ?_⟩, r.seen_mono, by simp, ?_⟩
    · intro y hy
      rcases r.inv.seen_ok y hy with h | h
      · exact Or.inl (List.mem_append_left _ h)
      · rcases List.mem_cons.mp h with rfl | h
        · exact Or.inl (by simp)
        · exact Or.inr h
    · intro z hz y hy
      have key : y ∈ ((f x).foldl (stepR f fuel x) st).2 ∨ y ∈ x :: stack := by
        rcases List.mem_append.mp hz with hz | hz
        · exact r.inv.closed z hz y hy
        · have : z = x := by simpa using hz
          subst this
          exact r.deps y hy
      rcases key with h | h
      · exact Or.inl (List.mem_append_left _ h)
      · rcases List.mem_cons.mp h with rfl | h
        · exact Or.inl (by simp)
        · exact Or.inr h
    · simp [e]
    · intro z hz
      rcases List.mem_append.mp hz with hz | hz
      · exact hr z hz
      · have : z = x := by simpa using hz
        subst this; exact .refl z
    · intro ht ha hac hg
      have g1 := r.good ht ha hac hg
      unfold Good at *
      rw [goodAux_append]
      refine ⟨g1, ?_⟩
      intro y hy hne
      simp only [List.nil_append]
      rcases r.deps y hy with h | h
      · exact h
      · rcases List.mem_cons.mp h with rfl | h
        · exact absurd rfl hne
        · exact absurd hy (hac y h hne)

/-! ### the top-level calls -/

theorem unseen_le (U seen : List Name) (x : Name) : unseen U seen x ≤ U.length := by
  unfold unseen; exact List.length_filter_le _ _

theorem pot_init_lt (U : List Name) (x : Name) : pot U [] x < 2 * U.length + 2 := by
  unfold pot
  have := unseen_le U [] x
  simp; omega

structure SortSpec (x : Name) (l : List Name) : Prop where
  root_mem : x ∈ l
  closed : ∀ z ∈ l, ∀ y ∈ f z, y ∈ l
  sound : ∀ z ∈ l, Reach f x z
  good : Trans f → Antisym f → Good f l

/-- `sortDependencies` over a finite universe closed under `f`, with enough fuel -/
theorem sortDeps_spec (U : List Name) (hU : ∀ x ∈ U, ∀ y ∈ f x, y ∈ U) (fuel : Nat)
    (hfuel : 2 * U.length + 2 ≤ fuel) (x : Name) (hx : x ∈ U) : SortSpec f x (sortDeps f fuel x) := by
  unfold sortDeps
  have p := sortR_post f U hU fuel x [] ([], []) hx
    (Nat.lt_of_lt_of_le (pot_init_lt U x) hfuel) ⟨by simp, by simp⟩
  obtain ⟨suf, e, hr⟩ := p.ext
  refine ⟨p.root_mem, ?_, ?_, ?_⟩
  · intro z hz y hy
    rcases p.inv.closed z hz y hy with h | h
    · exact h
    · simp at h
  · intro z hz
    rw [e] at hz
    exact hr z (by simpa using hz)
  · intro ht ha
    exact p.good ht ha (by simp) (by simp [Good, GoodAux])

/-- everything reachable is in the result -/
theorem sortDeps_complete (U : List Name) (hU : ∀ x ∈ U, ∀ y ∈ f x, y ∈ U) (fuel : Nat)
    (hfuel : 2 * U.length + 2 ≤ fuel) (x : Name) (hx : x ∈ U) (y : Name) (h : Reach f x y) :
    y ∈ sortDeps f fuel x := by
  have sp := sortDeps_spec f U hU fuel hfuel x hx
  exact Reach.mem_of_closed f (fun z => z ∈ sortDeps f fuel x) sp.closed sp.root_mem h

/-! ### merging with `appendNew` keeps the order -/

theorem appendNew_good (s : List Name) :
    ∀ (pre acc : List Name), (∀ y ∈ pre, y ∈ acc) → GoodAux f pre s → Good f acc → Good f (appendNew acc s) := by
  induction s with
  | nil => intro pre acc _ _ h; simpa [appendNew] using h
  | cons z s ih =>
    intro pre acc hsub hg hacc
    simp only [GoodAux] at hg
    have step : appendNew acc (z :: s) = appendNew (if acc.contains z then acc else acc ++ [z]) s := by
      simp [appendNew]
    rw [step]
    by_cases hc : acc.contains z = true
    · rw [if_pos hc]
      apply ih (pre ++ [z]) acc ?_ hg.2 hacc
      intro y hy
      rcases List.mem_append.mp hy with hy | hy
      · exact hsub y hy
      · have : y = z := by simpa using hy
        subst this; simpa using hc
    · rw [if_neg hc]
      apply ih (pre ++ [z]) (acc ++ [z]) ?_ hg.2 ?_
      · intro y hy
        rcases List.mem_append.mp hy with hy | hy
        · exact List.mem_append_left _ (hsub y hy)
        · exact List.mem_append_right _ hy
      · unfold Good at *
        rw [goodAux_append]
        exact ⟨hacc, fun y hy hne => by simpa using hsub y (hg.1 y hy hne)⟩

theorem foldl_appendNew_good (h : Name → List Name) (rs : List Name) (hs : ∀ r ∈ rs, Good f (h r)) :
    ∀ acc, Good f acc → Good f (rs.foldl (fun sorted r => appendNew sorted (h r)) acc) := by
  induction rs with
  | nil => intro acc ha; exact ha
  | cons r rs ih =>
    intro acc ha
    simp only [List.foldl_cons]
    apply ih (fun r' hr' => hs r' (List.mem_cons_of_mem _ hr'))
    exact appendNew_good f (h r) [] acc (by simp) (hs r (List.mem_cons_self ..)) ha

/-! ### the registry: flattened dependencies -/

section registry
variable (g : Reg) (fuel : Nat) (U : List Name)

theorem mem_flatDeps {r y : Name} : y ∈ flatDeps g fuel r ↔ r ∈ g.roots ∧ y ∈ sortDeps g.dep fuel r := by
  unfold flatDeps
  by_cases h : r ∈ g.roots
  · simp [h]
  · simp [h]

variable (hU : ∀ x ∈ U, ∀ y ∈ g.dep x, y ∈ U) (hr : ∀ r ∈ g.roots, r ∈ U) (hfuel : 2 * U.length + 2 ≤ fuel)
include hU hr hfuel

theorem flatDeps_sub {x y : Name} (hx : x ∈ U) (hy : y ∈ flatDeps g fuel x) : y ∈ U := by
  obtain ⟨_, hy⟩ := (mem_flatDeps g fuel).mp hy
  have sp := sortDeps_spec g.dep U hU fuel hfuel x hx
  exact Reach.mem_of_closed g.dep (fun z => z ∈ U) hU hx (sp.sound y hy)

theorem flatDeps_trans : Trans (flatDeps g fuel) := by
  intro a b c hb hc
  obtain ⟨ha, hb⟩ := (mem_flatDeps g fuel).mp hb
  obtain ⟨hbr, hc⟩ := (mem_flatDeps g fuel).mp hc
  have spa := sortDeps_spec g.dep U hU fuel hfuel a (hr a ha)
  have spb := sortDeps_spec g.dep U hU fuel hfuel b (hr b hbr)
  exact (mem_flatDeps g fuel).mpr ⟨ha,
    Reach.mem_of_closed g.dep (fun z => z ∈ sortDeps g.dep fuel a) spa.closed hb (spb.sound c hc)⟩

theorem flatDeps_antisym (hc : hasCycle g fuel = false) : Antisym (flatDeps g fuel) := by
  intro a b hb hne hab
  have ha : a ∈ g.roots := ((mem_flatDeps g fuel).mp hb).1
  have hbr : b ∈ g.roots := ((mem_flatDeps g fuel).mp hab).1
  have : hasCycle g fuel = true := by
    unfold hasCycle
    rw [List.any_eq_true]
    refine ⟨a, ha, ?_⟩
    rw [List.any_eq_true]
    refine ⟨b, hbr, ?_⟩
    simp [hne, hb, hab]
  rw [this] at hc
  exact absurd hc (by simp)

/-- a dependency (direct or not) of a registered root is in its flattened list -/
theorem reach_mem_flatDeps {r d : Name} (hrr : r ∈ g.roots) (h : Reach g.dep r d) : d ∈ flatDeps g fuel r :=
  (mem_flatDeps g fuel).mpr ⟨hrr, sortDeps_complete g.dep U hU fuel hfuel r (hr r hrr) d h⟩

/-- the order computed by `Roots` lists every node after all its strict flattened dependencies -/
theorem rootsOrder_good (l : List Name) (h : rootsOrder g fuel = some l) : Good (flatDeps g fuel) l := by
  unfold rootsOrder at h
  split at h
  · simp at h
  · rename_i hcyc
    simp only [Bool.not_eq_true] at hcyc
    simp only [Option.some.injEq] at h
    subst h
    have hU2 : ∀ x ∈ U, ∀ y ∈ flatDeps g fuel x, y ∈ U := fun x hx y hy => flatDeps_sub g fuel U hU hr hfuel hx hy
    apply foldl_appendNew_good
    · intro r hrr
      exact (sortDeps_spec (flatDeps g fuel) U hU2 fuel hfuel r (hr r hrr)).good
        (flatDeps_trans g fuel U hU hr hfuel) (flatDeps_antisym g fuel U hU hr hfuel hcyc)
    · simp [Good, GoodAux]

end registry

end GoaVerif.Eval
