import GoaVerif.Model.Mux
/-! Byte-level lemmas for C16 (escaping round trips). Facts about single bytes are decided
over all 256 values by kernel evaluation and lifted. -/
namespace GoaVerif.Mux

private theorem byte_all (P : UInt8 → Prop) [DecidablePred P]
    (h : ∀ n : Fin 256, P (UInt8.ofNat n.val)) (c : UInt8) : P c := by
  have := h ⟨c.toNat, c.toNat_lt⟩
  simpa using this

theorem hex_roundtrip (c : UInt8) :
    unhex (hexUpper (c / 16)) = some (c / 16) ∧ unhex (hexUpper (c % 16)) = some (c % 16) ∧
    (c / 16) * 16 + c % 16 = c :=
  byte_all (fun c => unhex (hexUpper (c / 16)) = some (c / 16) ∧ unhex (hexUpper (c % 16)) = some (c % 16) ∧
    (c / 16) * 16 + c % 16 = c) (by decide +kernel) c

theorem hex_not_slash (c : UInt8) : hexUpper (c / 16) ≠ slash ∧ hexUpper (c % 16) ≠ slash :=
  byte_all (fun c => hexUpper (c / 16) ≠ slash ∧ hexUpper (c % 16) ≠ slash) (by decide +kernel) c

theorem path_sub_seg (c : UInt8) : shouldEscapePath c = true → shouldEscapeSeg c = true :=
  byte_all (fun c => shouldEscapePath c = true → shouldEscapeSeg c = true) (by decide +kernel) c

theorem seg_percent : shouldEscapeSeg percent = true := by decide
theorem path_percent : shouldEscapePath percent = true := by decide
theorem seg_slash : shouldEscapeSeg slash = true := by decide
theorem path_slash : shouldEscapePath slash = false := by decide
theorem percent_ne_slash : percent ≠ slash := by decide

theorem escapeWith_cons (f : UInt8 → Bool) (c : UInt8) (r : Bytes) :
    escapeWith f (c :: r) = (if f c then escByte c else [c]) ++ escapeWith f r := by
  simp [escapeWith]

theorem escapeWith_append (f : UInt8 → Bool) (a b : Bytes) :
    escapeWith f (a ++ b) = escapeWith f a ++ escapeWith f b := by
  simp [escapeWith]

theorem unescape_cons_ne (c : UInt8) (rest : Bytes) (h : (c == percent) = false) :
    unescape (c :: rest) = (unescape rest).map (fun r => c :: r) := by
  rcases rest with _ | ⟨a, _ | ⟨b, r⟩⟩ <;> simp [unescape, h]

theorem unescape_percent (a b x y : UInt8) (rest : Bytes) (ha : unhex a = some x) (hb : unhex b = some y) :
    unescape (percent :: a :: b :: rest) = (unescape rest).map (fun r => (x * 16 + y) :: r) := by
  have hpp : (percent == percent) = true := by decide
  simp [unescape, hpp, ha, hb]

/-- **Unescaping undoes escaping**, in both escaping modes, for every byte string. -/
theorem unescape_escapeWith (f : UInt8 → Bool) (hp : f percent = true) (v : Bytes) :
    unescape (escapeWith f v) = some v := by
  induction v with
  | nil => rfl
  | cons c r ih =>
    rw [escapeWith_cons]
    by_cases hc : f c = true
    · obtain ⟨h1, h2, h3⟩ := hex_roundtrip c
      simp only [hc, ↓reduceIte, escByte, List.cons_append, List.nil_append]
      rw [unescape_percent _ _ _ _ _ h1 h2, ih]
      simp [h3]
    · have hne : c ≠ percent := by
        intro h; subst h; exact hc hp
      have hne' : (c == percent) = false := by simpa using hne
      simp only [hc, Bool.false_eq_true, ↓reduceIte, List.cons_append, List.nil_append]
      rw [unescape_cons_ne _ _ hne', ih]
      simp

theorem unescape_pathEscape (v : Bytes) : unescape (pathEscape v) = some v :=
  unescape_escapeWith _ seg_percent v

theorem unescape_escapePath (v : Bytes) : unescape (escapePath v) = some v :=
  unescape_escapeWith _ path_percent v

/-- An escaped value never contains a slash: it stays one path segment. -/
theorem no_slash_pathEscape (v : Bytes) : slash ∉ pathEscape v := by
  induction v with
  | nil => simp [pathEscape, escapeWith]
  | cons c r ih =>
    unfold pathEscape at *
    rw [escapeWith_cons]
    intro h
    rcases List.mem_append.mp h with h | h
    · by_cases hc : shouldEscapeSeg c = true
      · simp only [hc, ↓reduceIte, escByte, List.mem_cons, List.not_mem_nil, or_false] at h
        obtain ⟨h1, h2⟩ := hex_not_slash c
        rcases h with h | h | h
        · exact percent_ne_slash h.symm
        · exact h1 h.symm
        · exact h2 h.symm
      · simp only [hc, Bool.false_eq_true, ↓reduceIte, List.mem_cons, List.not_mem_nil, or_false] at h
        subst h
        exact hc seg_slash
    · exact ih h

/-- If the path-mode escaping of `v` coincides with its segment-mode escaping (the case in
    which the server leaves `RawPath` empty), then `v` contains no slash. -/
theorem no_slash_of_escapes_agree (v : Bytes) (h : escapePath v = pathEscape v) : slash ∉ v := by
  induction v with
  | nil => simp
  | cons c r ih =>
    unfold escapePath pathEscape at h ih
    rw [escapeWith_cons, escapeWith_cons] at h
    by_cases hp : shouldEscapePath c = true
    · have hs := path_sub_seg c hp
      simp only [hp, hs, ↓reduceIte] at h
      have hr := List.append_cancel_left h
      intro hm
      rcases List.mem_cons.mp hm with hm | hm
      · subst hm; simp [path_slash] at hp
      · exact ih hr hm
    · by_cases hs : shouldEscapeSeg c = true
      · -- heads differ: `c` on one side, `%` on the other, but `%` is escaped in path mode
        simp only [hp, hs, Bool.false_eq_true, ↓reduceIte, escByte, List.cons_append, List.nil_append] at h
        have : c = percent := (List.cons.inj h).1
        subst this
        exact absurd path_percent hp
      · simp only [hp, hs, Bool.false_eq_true, ↓reduceIte, List.cons_append, List.nil_append] at h
        have hr := (List.cons.inj h).2
        intro hm
        rcases List.mem_cons.mp hm with hm | hm
        · subst hm; exact hs seg_slash
        · exact ih hr hm

/-- bytes that both modes leave alone and that are not `%` (letters, digits, `-_.~`, …) -/
def Clean (l : Bytes) : Prop := ∀ c ∈ l, shouldEscapePath c = false ∧ c ≠ percent ∧ c ≠ slash

theorem escapePath_clean (l : Bytes) (h : Clean l) : escapePath l = l := by
  induction l with
  | nil => rfl
  | cons c r ih =>
    unfold escapePath at *
    rw [escapeWith_cons]
    have := (h c (by simp)).1
    simp only [this, Bool.false_eq_true, ↓reduceIte, List.cons_append, List.nil_append]
    rw [ih (fun x hx => h x (by simp [hx]))]

theorem unescape_clean_append (l s : Bytes) (h : ∀ c ∈ l, c ≠ percent) :
    unescape (l ++ s) = (unescape s).map (l ++ ·) := by
  induction l with
  | nil => simp
  | cons c r ih =>
    have hc : (c == percent) = false := by simpa using h c (by simp)
    simp only [List.cons_append]
    rw [unescape_cons_ne _ _ hc, ih (fun x hx => h x (by simp [hx]))]
    cases unescape s <;> simp

theorem splitSlash_noslash (x : Bytes) (h : slash ∉ x) : splitSlash x = [x] := by
  induction x with
  | nil => rfl
  | cons c r ih =>
    have hc : (c == slash) = false := by
      have : c ≠ slash := fun e => h (by simp [e])
      simpa using this
    simp only [splitSlash, hc, Bool.false_eq_true, ↓reduceIte]
    rw [ih (fun hm => h (List.mem_cons_of_mem _ hm))]

theorem splitSlash_lit (l x : Bytes) (h : slash ∉ l) :
    splitSlash (l ++ slash :: x) = l :: splitSlash x := by
  induction l with
  | nil => simp [splitSlash]
  | cons c r ih =>
    have hc : (c == slash) = false := by
      have : c ≠ slash := fun e => h (by simp [e])
      simpa using this
    simp only [List.cons_append, splitSlash, hc, Bool.false_eq_true, ↓reduceIte]
    rw [ih (fun hm => h (List.mem_cons_of_mem _ hm))]

end GoaVerif.Mux
