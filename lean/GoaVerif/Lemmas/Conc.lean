import GoaVerif.Model.Conc
/-! The lock-discipline invariant of `Model/Conc.lean` and its preservation by every step. -/
namespace GoaVerif.Conc

structure Inv (g : Nat → Nat) (frozen : Nat → Bool) (s : State) : Prop where
  excl : ∀ (i : Nat) (t : Thread), s.threads[i]? = some t → ∀ m ∈ t.E, (s.mx m).writer = some i
  shared : ∀ (i : Nat) (t : Thread), s.threads[i]? = some t → ∀ m, t.S.count m = ((s.mx m).readers).count i
  wr : ∀ (m w : Nat), (s.mx m).writer = some w → (s.mx m).readers = []
  nodup : ∀ (i : Nat) (t : Thread), s.threads[i]? = some t → t.E.Nodup
  disc : ∀ (i : Nat) (t : Thread), s.threads[i]? = some t → wl g frozen t.E t.S t.code = true

theorem get_set_cases {α} (l : List α) (i j : Nat) (a b : α) (h : (l.set i a)[j]? = some b) :
    (j = i ∧ b = a) ∨ (j ≠ i ∧ l[j]? = some b) := by
  rw [List.getElem?_set] at h
  by_cases hij : i = j
  · subst hij
    simp only [if_true] at h
    split at h
    · left; exact ⟨rfl, (Option.some.inj h).symm⟩
    · cases h
  · right
    simp only [hij, if_false] at h
    exact ⟨fun e => hij e.symm, h⟩

theorem setMx_same (mx : Nat → Mutex) (m : Nat) (v : Mutex) : setMx mx m v m = v := by simp [setMx]
theorem setMx_other (mx : Nat → Mutex) (m k : Nat) (v : Mutex) (h : k ≠ m) : setMx mx m v k = mx k := by simp [setMx, h]

/-- a step that touches no mutex and no lock set -/
theorem inv_code_only {g : Nat → Nat} {frozen : Nat → Bool} {s : State} {i : Nat} {t : Thread} (h : Inv g frozen s)
    (hi : s.threads[i]? = some t) (rest : List Instr) (hw : wl g frozen t.E t.S rest = true) :
    Inv g frozen { mx := s.mx, threads := s.threads.set i { t with code := rest } } := by
  constructor
  · intro j tj hj m hm
    rcases get_set_cases _ _ _ _ _ hj with ⟨rfl, rfl⟩ | ⟨_, hj'⟩
    · exact h.excl _ t hi m hm
    · exact h.excl j tj hj' m hm
  · intro j tj hj m
    rcases get_set_cases _ _ _ _ _ hj with ⟨rfl, rfl⟩ | ⟨_, hj'⟩
    · exact h.shared _ t hi m
    · exact h.shared j tj hj' m
  · exact h.wr
  · intro j tj hj
    rcases get_set_cases _ _ _ _ _ hj with ⟨rfl, rfl⟩ | ⟨_, hj'⟩
    · exact h.nodup _ t hi
    · exact h.nodup j tj hj'
  · intro j tj hj
    rcases get_set_cases _ _ _ _ _ hj with ⟨rfl, rfl⟩ | ⟨_, hj'⟩
    · exact hw
    · exact h.disc j tj hj'

theorem inv_same {g : Nat → Nat} {frozen : Nat → Bool} {s : State} {i : Nat} {t : Thread} (h : Inv g frozen s)
    (hi : s.threads[i]? = some t) : Inv g frozen { mx := s.mx, threads := s.threads.set i t } := by
  have := inv_code_only h hi t.code (h.disc i t hi)
  simpa using this

theorem inv_lock {g : Nat → Nat} {frozen : Nat → Bool} {s : State} {i m : Nat} {t : Thread} {rest : List Instr} (h : Inv g frozen s)
    (hi : s.threads[i]? = some t) (hc : t.code = .lock m :: rest)
    (hfree : (s.mx m).writer = none ∧ (s.mx m).readers = []) :
    Inv g frozen { mx := setMx s.mx m ⟨some i, []⟩, threads := s.threads.set i { E := m :: t.E, S := t.S, code := rest } } := by
  have hmE : ∀ (j : Nat) (tj : Thread), s.threads[j]? = some tj → m ∉ tj.E := by
    intro j tj hj hm
    have := h.excl j tj hj m hm
    rw [hfree.1] at this; cases this
  refine ⟨?_, ?_, ?_, ?_, ?_⟩ <;> dsimp only
  · intro j tj hj k hk
    rcases get_set_cases _ _ _ _ _ hj with ⟨rfl, rfl⟩ | ⟨hne, hj'⟩
    · by_cases hkm : k = m
      · subst hkm; simp [setMx_same]
      · rw [setMx_other _ _ _ _ hkm]
        rcases List.mem_cons.mp hk with rfl | hk'
        · exact absurd rfl hkm
        · exact h.excl _ t hi k hk'
    · by_cases hkm : k = m
      · subst hkm; exact absurd hk (hmE j tj hj')
      · rw [setMx_other _ _ _ _ hkm]; exact h.excl j tj hj' k hk
  · intro j tj hj k
    by_cases hkm : k = m
    · subst hkm
      rw [setMx_same]
      simp only [List.count_nil]
      rcases get_set_cases _ _ _ _ _ hj with ⟨rfl, rfl⟩ | ⟨_, hj'⟩
      · have := h.shared _ t hi k; rw [hfree.2] at this; simpa using this
      · have := h.shared j tj hj' k; rw [hfree.2] at this; simpa using this
    · rw [setMx_other _ _ _ _ hkm]
      rcases get_set_cases _ _ _ _ _ hj with ⟨rfl, rfl⟩ | ⟨_, hj'⟩
      · exact h.shared _ t hi k
      · exact h.shared j tj hj' k
  · intro k w hk
    by_cases hkm : k = m
    · subst hkm; simp [setMx_same]
    · rw [setMx_other _ _ _ _ hkm] at hk ⊢; exact h.wr k w hk
  · intro j tj hj
    rcases get_set_cases _ _ _ _ _ hj with ⟨rfl, rfl⟩ | ⟨_, hj'⟩
    · exact List.nodup_cons.mpr ⟨hmE _ t hi, h.nodup _ t hi⟩
    · exact h.nodup j tj hj'
  · intro j tj hj
    rcases get_set_cases _ _ _ _ _ hj with ⟨rfl, rfl⟩ | ⟨_, hj'⟩
    · have := h.disc _ t hi; rw [hc] at this; simpa [wl] using this
    · exact h.disc j tj hj'

theorem inv_rlock {g : Nat → Nat} {frozen : Nat → Bool} {s : State} {i m : Nat} {t : Thread} {rest : List Instr} (h : Inv g frozen s)
    (hi : s.threads[i]? = some t) (hc : t.code = .rlock m :: rest) (hfree : (s.mx m).writer = none) :
    Inv g frozen { mx := setMx s.mx m ⟨none, i :: (s.mx m).readers⟩,
                   threads := s.threads.set i { E := t.E, S := m :: t.S, code := rest } } := by
  have hmE : ∀ (j : Nat) (tj : Thread), s.threads[j]? = some tj → m ∉ tj.E := by
    intro j tj hj hm
    have := h.excl j tj hj m hm
    rw [hfree] at this; cases this
  refine ⟨?_, ?_, ?_, ?_, ?_⟩ <;> dsimp only
  · intro j tj hj k hk
    by_cases hkm : k = m
    · subst hkm
      rcases get_set_cases _ _ _ _ _ hj with ⟨rfl, rfl⟩ | ⟨_, hj'⟩
      · exact absurd hk (hmE _ t hi)
      · exact absurd hk (hmE j tj hj')
    · rw [setMx_other _ _ _ _ hkm]
      rcases get_set_cases _ _ _ _ _ hj with ⟨rfl, rfl⟩ | ⟨_, hj'⟩
      · exact h.excl _ t hi k hk
      · exact h.excl j tj hj' k hk
  · intro j tj hj k
    by_cases hkm : k = m
    · subst hkm
      rw [setMx_same]
      rcases get_set_cases _ _ _ _ _ hj with ⟨rfl, rfl⟩ | ⟨hne, hj'⟩
      · simp only [List.count_cons_self]
        rw [h.shared _ t hi k]
      · rw [List.count_cons_of_ne (Ne.symm hne)]
        exact h.shared j tj hj' k
    · rw [setMx_other _ _ _ _ hkm]
      rcases get_set_cases _ _ _ _ _ hj with ⟨rfl, rfl⟩ | ⟨_, hj'⟩
      · rw [List.count_cons_of_ne (Ne.symm hkm)]; exact h.shared _ t hi k
      · exact h.shared j tj hj' k
  · intro k w hk
    by_cases hkm : k = m
    · subst hkm; rw [setMx_same] at hk; cases hk
    · rw [setMx_other _ _ _ _ hkm] at hk ⊢; exact h.wr k w hk
  · intro j tj hj
    rcases get_set_cases _ _ _ _ _ hj with ⟨rfl, rfl⟩ | ⟨_, hj'⟩
    · exact h.nodup _ t hi
    · exact h.nodup j tj hj'
  · intro j tj hj
    rcases get_set_cases _ _ _ _ _ hj with ⟨rfl, rfl⟩ | ⟨_, hj'⟩
    · have := h.disc _ t hi; rw [hc] at this; simpa [wl] using this
    · exact h.disc j tj hj'

theorem inv_unlock {g : Nat → Nat} {frozen : Nat → Bool} {s : State} {i m : Nat} {t : Thread} {rest : List Instr} (h : Inv g frozen s)
    (hi : s.threads[i]? = some t) (hc : t.code = .unlock m :: rest) (hm : m ∈ t.E) :
    Inv g frozen { mx := setMx s.mx m ⟨none, (s.mx m).readers⟩,
                   threads := s.threads.set i { E := t.E.erase m, S := t.S, code := rest } } := by
  have hw : (s.mx m).writer = some i := h.excl i t hi m hm
  refine ⟨?_, ?_, ?_, ?_, ?_⟩ <;> dsimp only
  · intro j tj hj k hk
    rcases get_set_cases _ _ _ _ _ hj with ⟨rfl, rfl⟩ | ⟨hne, hj'⟩
    · have hkE : k ∈ t.E := List.mem_of_mem_erase hk
      by_cases hkm : k = m
      · subst hkm
        exact absurd hk (fun hk => (List.Nodup.mem_erase_iff (h.nodup _ t hi)).mp hk |>.1 rfl)
      · rw [setMx_other _ _ _ _ hkm]; exact h.excl _ t hi k hkE
    · by_cases hkm : k = m
      · subst hkm
        have := h.excl j tj hj' k hk
        rw [hw] at this
        exact absurd (Option.some.inj this).symm hne
      · rw [setMx_other _ _ _ _ hkm]; exact h.excl j tj hj' k hk
  · intro j tj hj k
    by_cases hkm : k = m
    · subst hkm
      rw [setMx_same]
      rcases get_set_cases _ _ _ _ _ hj with ⟨rfl, rfl⟩ | ⟨_, hj'⟩
      · exact h.shared _ t hi k
      · exact h.shared j tj hj' k
    · rw [setMx_other _ _ _ _ hkm]
      rcases get_set_cases _ _ _ _ _ hj with ⟨rfl, rfl⟩ | ⟨_, hj'⟩
      · exact h.shared _ t hi k
      · exact h.shared j tj hj' k
  · intro k w hk
    by_cases hkm : k = m
    · subst hkm; rw [setMx_same] at hk; cases hk
    · rw [setMx_other _ _ _ _ hkm] at hk ⊢; exact h.wr k w hk
  · intro j tj hj
    rcases get_set_cases _ _ _ _ _ hj with ⟨rfl, rfl⟩ | ⟨_, hj'⟩
    · exact (h.nodup _ t hi).erase m
    · exact h.nodup j tj hj'
  · intro j tj hj
    rcases get_set_cases _ _ _ _ _ hj with ⟨rfl, rfl⟩ | ⟨_, hj'⟩
    · have := h.disc _ t hi; rw [hc] at this; simpa [wl] using this
    · exact h.disc j tj hj'

theorem inv_runlock {g : Nat → Nat} {frozen : Nat → Bool} {s : State} {i m : Nat} {t : Thread} {rest : List Instr} (h : Inv g frozen s)
    (hi : s.threads[i]? = some t) (hc : t.code = .runlock m :: rest) (hm : m ∈ t.S) :
    Inv g frozen { mx := setMx s.mx m ⟨(s.mx m).writer, (s.mx m).readers.erase i⟩,
                   threads := s.threads.set i { E := t.E, S := t.S.erase m, code := rest } } := by
  refine ⟨?_, ?_, ?_, ?_, ?_⟩ <;> dsimp only
  · intro j tj hj k hk
    by_cases hkm : k = m
    · subst hkm
      rw [setMx_same]
      rcases get_set_cases _ _ _ _ _ hj with ⟨rfl, rfl⟩ | ⟨_, hj'⟩
      · exact h.excl _ t hi k hk
      · exact h.excl j tj hj' k hk
    · rw [setMx_other _ _ _ _ hkm]
      rcases get_set_cases _ _ _ _ _ hj with ⟨rfl, rfl⟩ | ⟨_, hj'⟩
      · exact h.excl _ t hi k hk
      · exact h.excl j tj hj' k hk
  · intro j tj hj k
    by_cases hkm : k = m
    · subst hkm
      rw [setMx_same]
      rcases get_set_cases _ _ _ _ _ hj with ⟨rfl, rfl⟩ | ⟨hne, hj'⟩
      · simp only [List.count_erase_self]
        rw [h.shared _ t hi k]
      · rw [List.count_erase_of_ne hne]
        exact h.shared j tj hj' k
    · rw [setMx_other _ _ _ _ hkm]
      rcases get_set_cases _ _ _ _ _ hj with ⟨rfl, rfl⟩ | ⟨_, hj'⟩
      · rw [List.count_erase_of_ne hkm]; exact h.shared _ t hi k
      · exact h.shared j tj hj' k
  · intro k w hk
    by_cases hkm : k = m
    · subst hkm
      rw [setMx_same] at hk ⊢
      simp only at hk ⊢
      rw [h.wr k w hk]; rfl
    · rw [setMx_other _ _ _ _ hkm] at hk ⊢; exact h.wr k w hk
  · intro j tj hj
    rcases get_set_cases _ _ _ _ _ hj with ⟨rfl, rfl⟩ | ⟨_, hj'⟩
    · exact h.nodup _ t hi
    · exact h.nodup j tj hj'
  · intro j tj hj
    rcases get_set_cases _ _ _ _ _ hj with ⟨rfl, rfl⟩ | ⟨_, hj'⟩
    · have := h.disc _ t hi; rw [hc] at this; simpa [wl] using this
    · exact h.disc j tj hj'

theorem inv_step {g : Nat → Nat} {frozen : Nat → Bool} (s : State) (i : Nat) (h : Inv g frozen s) : Inv g frozen (step s i) := by
  unfold step
  cases hi : s.threads[i]? with
  | none => exact h
  | some t =>
    simp only
    unfold stepThread
    cases hc : t.code with
    | nil => simpa using inv_same h hi
    | cons ins rest =>
      cases ins with
      | lock m =>
        simp only
        by_cases hf : (s.mx m).writer = none ∧ (s.mx m).readers = []
        · rw [if_pos hf]; exact inv_lock h hi hc hf
        · rw [if_neg hf]; exact inv_same h hi
      | rlock m =>
        simp only
        by_cases hf : (s.mx m).writer = none
        · rw [if_pos hf]; exact inv_rlock h hi hc hf
        · rw [if_neg hf]; exact inv_same h hi
      | unlock m =>
        simp only
        by_cases hm : m ∈ t.E
        · rw [if_pos hm]; exact inv_unlock h hi hc hm
        · rw [if_neg hm]; exact inv_same h hi
      | runlock m =>
        simp only
        by_cases hm : m ∈ t.S
        · rw [if_pos hm]; exact inv_runlock h hi hc hm
        · rw [if_neg hm]; exact inv_same h hi
      | read x =>
        simp only
        have := h.disc i t hi; rw [hc] at this
        simp only [wl, Bool.and_eq_true] at this
        exact inv_code_only h hi rest this.2
      | write x =>
        simp only
        have := h.disc i t hi; rw [hc] at this
        simp only [wl, Bool.and_eq_true] at this
        exact inv_code_only h hi rest this.2

theorem inv_run {g : Nat → Nat} {frozen : Nat → Bool} (s : State) (sched : List Nat) (h : Inv g frozen s) : Inv g frozen (run s sched) := by
  unfold run
  induction sched generalizing s with
  | nil => exact h
  | cons i rest ih => exact ih _ (inv_step s i h)

theorem inv_init {g : Nat → Nat} {frozen : Nat → Bool} (codes : List (List Instr)) (h : ∀ c ∈ codes, wl g frozen [] [] c = true) :
    Inv g frozen (initState codes) := by
  have key : ∀ (i : Nat) (t : Thread), (initState codes).threads[i]? = some t → t.E = [] ∧ t.S = [] ∧ t.code ∈ codes := by
    intro i t hi
    simp only [initState, List.getElem?_map] at hi
    cases hc : codes[i]? with
    | none => rw [hc] at hi; cases hi
    | some c =>
      rw [hc] at hi
      simp only [Option.map_some, Option.some.injEq] at hi
      subst hi
      exact ⟨rfl, rfl, List.mem_of_getElem? hc⟩
  constructor
  · intro i t hi m hm; rw [(key i t hi).1] at hm; cases hm
  · intro i t hi m; rw [(key i t hi).2.1]; simp [initState, freeMx]
  · intro m w hw; simp [initState, freeMx] at hw
  · intro i t hi; rw [(key i t hi).1]; exact List.nodup_nil
  · intro i t hi
    obtain ⟨hE, hS, hc⟩ := key i t hi
    rw [hE, hS]; exact h _ hc

/-- under the invariant no state is a race state -/
theorem inv_no_race {g : Nat → Nat} {frozen : Nat → Bool} (s : State) (h : Inv g frozen s) : ¬ Race s := by
  rintro ⟨i, j, ti, tj, x, wi, wj, hne, hi, hj, hai, haj, hw⟩
  -- what the discipline says about a thread that is about to access x
  have rd : ∀ (k : Nat) (t : Thread) (w : Bool), s.threads[k]? = some t → nextAccess t = some (x, w) →
      (w = true → frozen x = false ∧ g x ∈ t.E) ∧ (frozen x = true ∨ g x ∈ t.E ∨ g x ∈ t.S) := by
    intro k t w hk ha
    have hd := h.disc k t hk
    unfold nextAccess at ha
    cases hc : t.code with
    | nil => rw [hc] at ha; cases ha
    | cons ins rest =>
      rw [hc] at ha hd
      cases ins with
      | lock m => simp [access] at ha
      | rlock m => simp [access] at ha
      | unlock m => simp [access] at ha
      | runlock m => simp [access] at ha
      | read y =>
        simp only [access, Option.some.injEq, Prod.mk.injEq] at ha
        obtain ⟨hy, hw'⟩ := ha
        subst hy; subst hw'
        simp only [wl, Bool.and_eq_true, Bool.or_eq_true, List.contains_iff_mem] at hd
        refine ⟨fun e => (by cases e), ?_⟩
        rcases hd.1 with (h1 | h1) | h1
        · exact Or.inl h1
        · exact Or.inr (Or.inl h1)
        · exact Or.inr (Or.inr h1)
      | write y =>
        simp only [access, Option.some.injEq, Prod.mk.injEq] at ha
        obtain ⟨hy, hw'⟩ := ha
        subst hy; subst hw'
        simp only [wl, Bool.and_eq_true, Bool.not_eq_true', List.contains_iff_mem] at hd
        exact ⟨fun _ => hd.1, Or.inr (Or.inl hd.1.2)⟩
  -- a writer of x excludes every other thread that is about to access x
  have excl : ∀ (a b : Nat) (ta tb : Thread) (wb : Bool), a ≠ b → s.threads[a]? = some ta → s.threads[b]? = some tb →
      nextAccess ta = some (x, true) → nextAccess tb = some (x, wb) → False := by
    intro a b ta tb wb hab ha hb haa hab'
    obtain ⟨hfz, hE⟩ := (rd a ta true ha haa).1 rfl
    have hwr := h.excl a ta ha _ hE
    rcases (rd b tb wb hb hab').2 with hf | hEb | hSb
    · rw [hfz] at hf; cases hf
    · have := h.excl b tb hb _ hEb
      rw [hwr] at this
      exact hab (Option.some.inj this)
    · have hc := h.shared b tb hb (g x)
      rw [h.wr _ _ hwr] at hc
      have : 0 < tb.S.count (g x) := List.count_pos_iff.mpr hSb
      simp at hc; omega
  rcases hw with rfl | rfl
  · exact excl i j ti tj wj hne hi hj hai haj
  · exact excl j i tj ti wi (Ne.symm hne) hj hi haj hai

end GoaVerif.Conc
