import GoaVerif.Model.Eval
/-! Helper lemmas for C11: which events each part of `RunDSL` can add to the trace. -/
namespace GoaVerif.Eval

/-- `s'` extends the trace of `s` with events of phase `ph` only -/
def Adds (ph : Phase) (s s' : St) : Prop :=
  ∃ l, s'.trace = s.trace ++ l ∧ ∀ e ∈ l, e.phase = ph

theorem Adds.refl (ph : Phase) (s : St) : Adds ph s s := ⟨[], by simp, by simp⟩

theorem Adds.trans {ph : Phase} {a b c : St} (h1 : Adds ph a b) (h2 : Adds ph b c) : Adds ph a c := by
  obtain ⟨l1, e1, p1⟩ := h1
  obtain ⟨l2, e2, p2⟩ := h2
  refine ⟨l1 ++ l2, by rw [e2, e1, List.append_assoc], ?_⟩
  intro e he
  rcases List.mem_append.mp he with h | h
  · exact p1 e h
  · exact p2 e h

theorem Adds.of_trace_eq {ph : Phase} {a b : St} (h : b.trace = a.trace) : Adds ph a b :=
  ⟨[], by simp [h], by simp⟩

theorem foldl_adds {α} (ph : Phase) (f : St → α → St) (hf : ∀ s x, Adds ph s (f s x))
    (l : List α) (s : St) : Adds ph s (l.foldl f s) := by
  induction l generalizing s with
  | nil => exact Adds.refl ph s
  | cons x xs ih => exact (hf s x).trans (ih (f s x))

theorem applyEff_trace (w : World) (s : St) (e : Eff) : (applyEff w s e).trace = s.trace := by
  cases e with
  | err t => rfl
  | register r =>
    simp only [applyEff]
    split
    · rfl
    · split <;> rfl
  | append r i x => rfl

theorem effs_trace (w : World) (effs : List Eff) (s : St) : (effs.foldl (applyEff w) s).trace = s.trace := by
  induction effs generalizing s with
  | nil => rfl
  | cons e es ih => rw [List.foldl_cons, ih, applyEff_trace]

theorem runSet_adds (w : World) (root : Name) (s : St) (snap : List Nat) :
    Adds .dsl s (runSet w root s snap) := by
  unfold runSet
  apply foldl_adds
  intro s id
  split
  · split
    · rename_i effs _
      refine ⟨[⟨.dsl, root, id⟩], ?_, by simp⟩
      rw [effs_trace]
    · exact Adds.refl _ _
  · exact Adds.refl _ _

theorem execRoot_adds (w : World) (root : Name) (fuel i : Nat) (s : St) :
    Adds .dsl s (execRoot w root fuel i s) := by
  induction fuel generalizing i s with
  | zero => exact Adds.refl _ _
  | succ n ih =>
    unfold execRoot
    split
    · exact Adds.refl _ _
    · exact (runSet_adds w root s _).trans (ih _ _)

theorem execLoop_adds (w : World) (of fuel : Nat) (roots : List Name) (start : Nat) (s s' : St)
    (rs : List Name) (h : execLoop w of fuel roots start s = some (s', rs)) : Adds .dsl s s' := by
  induction fuel generalizing roots start s with
  | zero => simp [execLoop] at h; rw [← h.1]; exact Adds.refl _ _
  | succ n ih =>
    unfold execLoop at h
    split at h
    · simp at h; rw [← h.1]; exact Adds.refl _ _
    · simp only at h
      split at h
      · simp at h
      · exact (foldl_adds .dsl _ (fun s r => execRoot_adds w r maxSets 0 s) _ s).trans (ih _ _ _ h)

theorem visit_adds (w : World) (ph : Phase) (root : Name) (s : St) (id : Nat) :
    Adds ph s (visit w ph root s id) := by
  unfold visit
  split
  · exact Adds.refl _ _
  · cases ph with
    | dsl => exact Adds.refl _ _
    | prepare =>
      simp only
      split
      · exact ⟨[_], rfl, by simp⟩
      · exact Adds.refl _ _
    | validate =>
      simp only
      split
      · exact ⟨[_], rfl, by simp⟩
      · exact Adds.refl _ _
    | finalize =>
      simp only
      split
      · exact ⟨[_], rfl, by simp⟩
      · exact Adds.refl _ _

theorem phase_adds (w : World) (ph : Phase) (roots : List Name) (s : St) :
    Adds ph s (phase w ph roots s) := by
  unfold phase
  apply foldl_adds
  intro s r
  have h1 : Adds ph s (match w.def? r with | some d => visit w ph r s d.self | none => s) := by
    split
    · exact visit_adds _ _ _ _ _
    · exact Adds.refl _ _
  refine h1.trans ?_
  apply foldl_adds
  intro s set
  apply foldl_adds
  intro s id
  exact visit_adds _ _ _ _ _

/-- the errors recorded by a phase other than validation are unchanged -/
theorem visit_errors_nonval (w : World) (ph : Phase) (hp : ph ≠ .validate) (root : Name) (s : St) (id : Nat) :
    (visit w ph root s id).errors = s.errors := by
  unfold visit
  split
  · rfl
  · cases ph with
    | dsl => rfl
    | prepare => simp only; split <;> rfl
    | validate => exact absurd rfl hp
    | finalize => simp only; split <;> rfl

/-! ### order of roots: duplicates -/

theorem appendNew_nodup (acc s : List Name) (h : acc.Nodup) : (appendNew acc s).Nodup := by
  unfold appendNew
  induction s generalizing acc with
  | nil => exact h
  | cons x xs ih =>
    simp only [List.foldl_cons]
    apply ih
    split
    · exact h
    · rename_i hx
      simp at hx
      exact List.nodup_append.mpr ⟨h, by simp, by intro a ha b hb; simp at hb; subst hb; intro hab; subst hab; exact hx ha⟩

theorem appendNew_mem (acc s : List Name) (x : Name) :
    x ∈ appendNew acc s ↔ x ∈ acc ∨ x ∈ s := by
  unfold appendNew
  induction s generalizing acc with
  | nil => simp
  | cons y ys ih =>
    simp only [List.foldl_cons]
    rw [ih]
    split
    · rename_i hy; simp at hy
      constructor
      · rintro (h | h)
        · exact Or.inl h
        · exact Or.inr (List.mem_cons_of_mem _ h)
      · rintro (h | h)
        · exact Or.inl h
        · rcases List.mem_cons.mp h with rfl | h
          · exact Or.inl hy
          · exact Or.inr h
    · simp only [List.mem_append, List.mem_singleton, List.mem_cons, List.not_mem_nil, or_false]
      constructor
      · rintro ((h | h) | h)
        · exact Or.inl h
        · exact Or.inr (Or.inl h)
        · exact Or.inr (Or.inr h)
      · rintro (h | h | h)
        · exact Or.inl (Or.inl h)
        · exact Or.inl (Or.inr h)
        · exact Or.inr h

theorem sortR_root_mem (dep : Name → List Name) (fuel : Nat) (root : Name) (st : List Name × List Name) :
    root ∈ (sortR dep fuel root st).2 := by
  cases fuel <;> simp [sortR]

end GoaVerif.Eval
