import GoaVerif.Model.FS
/-! Pointwise description of the file-system operations of `Model/FS.lean`. -/
namespace GoaVerif.FS

theorem get_put (fs : FS) (p q : Path) (c : Cell) :
    get (put fs p c) q = if q = p then some c else get fs q := by
  unfold get put
  rw [List.lookup_cons]
  by_cases h : q = p
  · subst h; simp
  · have : (q == p) = false := by simpa using h
    simp [h, this]

theorem get_removeWhere (fs : FS) (pred : Path → Bool) (q : Path) :
    get (removeWhere fs pred) q = if pred q then none else get fs q := by
  unfold get removeWhere
  induction fs with
  | nil => simp
  | cons e rest ih =>
    obtain ⟨k, v⟩ := e
    cases hk : pred k
    · have : List.filter (fun e => !pred e.1) ((k, v) :: rest) = (k, v) :: List.filter (fun e => !pred e.1) rest := by
        simp [hk]
      rw [this, List.lookup_cons, List.lookup_cons, ih]
      by_cases hq : q = k
      · subst hq; simp [hk]
      · have : (q == k) = false := by simpa using hq
        simp [this]
    · have : List.filter (fun e => !pred e.1) ((k, v) :: rest) = List.filter (fun e => !pred e.1) rest := by
        simp [hk]
      rw [this, List.lookup_cons, ih]
      by_cases hq : q = k
      · subst hq; simp [hk]
      · have : (q == k) = false := by simpa using hq
        simp [this]

/-- `Render` changes one path and reads only that path. -/
theorem get_render (fmt : String → String) (fs : FS) (f : File) (q : Path) :
    get (render fmt fs f) q = if q = f.path then some (renderCell fmt f (get fs f.path)) else get fs q := by
  unfold render; exact get_put ..

theorem get_cleanup (fs : FS) (q : Path) :
    get (cleanup fs) q = if underGenSub q then none else get fs q := get_removeWhere ..

theorem get_edit (fs : FS) (p : Path) (s : String) (q : Path) :
    get (edit fs p s) q =
      if q = p then some (match get fs p with | some old => ⟨s, old.writes + 1⟩ | none => ⟨s, 0⟩) else get fs q := by
  unfold edit; exact get_put ..

/-- Rendering a list of files: a path no file names is untouched. -/
theorem get_renderAll_frame (fmt : String → String) (files : List File) (fs : FS) (q : Path)
    (h : ∀ f ∈ files, f.path ≠ q) : get (renderAll fmt files fs) q = get fs q := by
  unfold renderAll
  induction files generalizing fs with
  | nil => rfl
  | cons f rest ih =>
    simp only [List.foldl_cons]
    rw [ih _ (fun g hg => h g (List.mem_cons_of_mem _ hg)), get_render]
    have : q ≠ f.path := fun e => h f (List.mem_cons_self ..) e.symm
    simp [this]

/-- Rendering a list of files: what ends up at a path depends only on what was at that path. -/
theorem get_renderAll_local (fmt : String → String) (files : List File) (fs₁ fs₂ : FS) (q : Path)
    (h : get fs₁ q = get fs₂ q) : get (renderAll fmt files fs₁) q = get (renderAll fmt files fs₂) q := by
  unfold renderAll
  induction files generalizing fs₁ fs₂ with
  | nil => exact h
  | cons f rest ih =>
    simp only [List.foldl_cons]
    apply ih
    rw [get_render, get_render]
    by_cases hq : q = f.path
    · subst hq; simp [h]
    · simp [hq, h]

/-- Files that carry `SkipExist` never change a path that exists. -/
theorem get_renderAll_skip (fmt : String → String) (files : List File) (fs : FS) (q : Path) (c : Cell)
    (hs : ∀ f ∈ files, f.skipExist = true) (h : get fs q = some c) :
    get (renderAll fmt files fs) q = some c := by
  unfold renderAll
  induction files generalizing fs with
  | nil => exact h
  | cons f rest ih =>
    simp only [List.foldl_cons]
    apply ih _ (fun g hg => hs g (List.mem_cons_of_mem _ hg))
    rw [get_render]
    by_cases hq : q = f.path
    · subst hq
      simp [h, renderCell, hs f (List.mem_cons_self ..)]
    · simp [hq, h]

end GoaVerif.FS
