import GoaVerif.Prelude.Hex
import GoaVerif.Model.Transport
/-! `prim <Type> <value> <wirehex>`: the wire string the generated client produced for a value
must be what the model formats, and must parse back to the value. -/
namespace GoaVerif.Drive.Transport
open GoaVerif GoaVerif.Transport

def primOf : String → Option Prim
  | "Int" => some .int | "Int32" => some .int32 | "Int64" => some .int64
  | "UInt" => some .uint | "UInt32" => some .uint32 | "UInt64" => some .uint64
  | "Boolean" => some .bool | _ => none

def handle : List String → Option String
  | ["prim", ty, v, w] => do
    let p ← primOf ty
    let wire ← hexToString w
    let n ← (if v == "true" then some (1 : Int) else if v == "false" then some 0 else v.toInt?)
    let f := format p n
    if f != wire then some ("mismatch: model formats " ++ f)
    else if parse p wire != some n then some "mismatch: wire string does not parse back"
    else some "ok"
  -- `elems <request|response> <query|header> <hex element>*`: what arrives under the key
  | "elems" :: d :: l :: xs => do
    let dir ← (match d with | "request" => some Dir.request | "response" => some Dir.response | _ => none)
    let loc ← (match l with | "query" => some Loc.query | "header" => some Loc.header | _ => none)
    let elems ← xs.mapM hexToString
    some (" ".intercalate ("arrives" :: (deliverElems dir loc elems).map fun e => encString e))
  | _ => none

end GoaVerif.Drive.Transport
