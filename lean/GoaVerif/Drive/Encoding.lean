import GoaVerif.Prelude.Hex
import GoaVerif.Model.Encoding
import GoaVerif.Generated.TrStatus
/-! Line-protocol front end for the C15 model. The behaviour of `mime.ParseMediaType`
on the strings of one operation travels with the operation as a table
`T <n> (<s> <mediaType> <ok>)*n`; a lookup outside the table is reported as `oracle-miss`. -/
namespace GoaVerif.Drive.Encoding
open GoaVerif GoaVerif.Encoding

def parseTable : Nat → List String → Option (List (String × String × Bool))
  | 0, [] => some []
  | n + 1, s :: m :: ok :: rest => do
    let s ← hexToString s
    let m ← hexToString m
    let r ← parseTable n rest
    pure ((s, m, ok == "1") :: r)
  | _, _ => none

def pmOf (t : List (String × String × Bool)) : PM := fun s =>
  match t.find? (·.1 == s) with
  | some (_, m, ok) => (m, ok)
  | none => ("", false)

def known (t : List (String × String × Bool)) (s : String) : Bool :=
  s == "" || t.any (·.1 == s)

def fmtName : Fmt → String
  | .json => "json" | .xml => "xml" | .gob => "gob" | .text => "text"

def splitTable (toks : List String) : Option (List String × List (String × String × Bool)) :=
  match toks.span (· ≠ "T") with
  | (pre, "T" :: n :: rest) => do
    let k ← n.toNat?
    let t ← parseTable k rest
    pure (pre, t)
  | _ => none

def handle (toks : List String) : Option String := do
  let (pre, t) ← splitTable toks
  let pm := pmOf t
  match pre with
  | ["respenc", a, c, p, vk] =>
    let accept ← hexToString a
    let ct ← hexToString c
    let preset ← hexToString p
    if !(known t accept && known t ct) then some "oracle-miss" else
    let (enc, hdr) := responseEncoder pm accept ct preset
    if !(known t hdr) then some "oracle-miss" else
    let dec := responseDecoder pm hdr
    let rt := match enc with
      | none => "bad"
      | some e => if e == .text && vk == "struct" then "na" else if e == dec then "ok" else "bad"
    some ("enc=" ++ (match enc with | none => "nil" | some e => fmtName e) ++ " hdr=" ++ encString hdr ++
      " dec=" ++ fmtName dec ++ " rt=" ++ rt)
  | ["reqdec", h] =>
    let hdr ← hexToString h
    if !(known t hdr) then some "oracle-miss" else
    match requestDecoder pm hdr with
    | .fmt f => some ("dec=" ++ fmtName f ++ " status=-")
    | .unsupported ct => some ("dec=unsupported:" ++ encString ct ++ " status=" ++
        toString (Generated.TrStatus.httpStatusCode { Name := "unsupported_media_type" }))
  | ["notfound", _, _] => some "nf=ok"   -- specification: the muxer's own 404 announces the encoding it is written in
  | ["keep", _, _, _, _] => some "keep=ok"   -- specification: decoded values are independent of later decodes
  | ["reqenc", h] =>
    let hdr ← hexToString h
    let (f, h') := requestEncoder hdr
    some ("enc=" ++ fmtName f ++ " hdr=" ++ encString h')
  | ["setct", h, c] =>
    let hdr ← hexToString h
    let ct ← hexToString c
    some ("hdr=" ++ encString (setContentType hdr ct))
  | _ => none

end GoaVerif.Drive.Encoding
