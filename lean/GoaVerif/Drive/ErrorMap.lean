import GoaVerif.Prelude.Hex
import GoaVerif.Model.ErrorMap
/-!
`errmap MH <k> (<name> <code>)* ME <k> <name>* SE <k> <name>* SH <k> (<name> <code>)* AH <k> (<name> <code>)*
        R <goaName|~> (~ | <name> <timeout> <temporary> <fault>)`
→ `status=<n> header=<name|~> default=<~|name:t:tmp:f> client=<name|~>` (names hex-encoded).
-/
namespace GoaVerif.Drive.ErrorMap
open GoaVerif GoaVerif.ErrorMap GoaVerif.Generated

def takeNames : Nat → List String → Option (List String × List String)
  | 0, ts => some ([], ts)
  | n + 1, t :: ts => do
    let s ← hexToString t
    let (r, ts) ← takeNames n ts
    pure (s :: r, ts)
  | _, _ => none

def takeH : Nat → List String → Option (List HErr × List String)
  | 0, ts => some ([], ts)
  | n + 1, t :: c :: ts => do
    let s ← hexToString t
    let code ← c.toInt?
    let (r, ts) ← takeH n ts
    pure (⟨s, code⟩ :: r, ts)
  | _, _ => none

def section_ (tag : String) : List String → Option (Nat × List String)
  | t :: k :: ts => if t == tag then k.toNat?.map (·, ts) else none
  | _ => none

def optName (t : String) : Option (Option String) :=
  if t == "~" then some none else (hexToString t).map some

def handle : List String → Option String
  | "errmap" :: ts => do
    let (k, ts) ← section_ "MH" ts; let (mh, ts) ← takeH k ts
    let (k, ts) ← section_ "ME" ts; let (me, ts) ← takeNames k ts
    let (k, ts) ← section_ "SE" ts; let (se, ts) ← takeNames k ts
    let (k, ts) ← section_ "SH" ts; let (sh, ts) ← takeH k ts
    let (k, ts) ← section_ "AH" ts; let (ah, ts) ← takeH k ts
    let c : Ctx := { methodHTTP := mh, methodErrs := me, svcErrs := se, svcHTTP := sh, apiHTTP := ah }
    let r ← match ts with
      | ["R", g, "~"] => do pure (⟨← optName g, none⟩ : Returned)
      | ["R", g, n, t, tmp, f] => do
        pure (⟨← optName g, some { Name := ← hexToString n, Timeout := t == "1", Temporary := tmp == "1", Fault := f == "1" }⟩ : Returned)
      | _ => none
    let t := table c
    let w := encode t r
    let enc (o : Option String) : String := match o with | some s => encString s | none => "~"
    let dflt := match w.defaultBody with
      | some e => encString e.Name ++ ":" ++ boolTok e.Timeout ++ ":" ++ boolTok e.Temporary ++ ":" ++ boolTok e.Fault
      | none => "~"
    some s!"status={w.status} header={enc w.errHeader} default={dflt} client={enc (clientName t w)}"
  | _ => none

end GoaVerif.Drive.ErrorMap
