import GoaVerif.Prelude.Hex
import GoaVerif.Model.FS
/-!
`fs G <path>* E <path>* OPS (gen | ex | edit <path> <content> | rm <path>)*` — paths and contents hex-encoded.
Generated file `p` has the symbolic content `g:p`, example file `p` the content `e:p`; the Go
formatter is the identity on these symbols. Answer: the final directory, sorted by path:
`<path>=<content>#<writes>` joined by spaces.
-/
namespace GoaVerif.Drive.FS
open GoaVerif GoaVerif.FS

def pathOf (s : String) : Path := s.splitOn "/"

def parseOps : Nat → List String → Option (List Op)
  | _, [] => some []
  | 0, _ => none
  | n + 1, "gen" :: r => (parseOps n r).map (Op.gen :: ·)
  | n + 1, "ex" :: r => (parseOps n r).map (Op.ex :: ·)
  | n + 1, "edit" :: p :: c :: r => do
    let p ← hexToString p
    let c ← hexToString c
    (parseOps n r).map (Op.edit (pathOf p) c :: ·)
  | n + 1, "rm" :: p :: r => do
    let p ← hexToString p
    (parseOps n r).map (Op.rm (pathOf p) :: ·)
  | _, _ => none

def insertSorted (e : String × String) : List (String × String) → List (String × String)
  | [] => [e]
  | x :: xs => if e.1 ≤ x.1 then e :: x :: xs else x :: insertSorted e xs

def listing (fs : FS) : List (String × String) :=
  let paths := (fs.map (·.1)).eraseDups
  paths.foldl (fun acc p =>
    match get fs p with
    | some c => insertSorted ("/".intercalate p, s!"{encString c.content}#{c.writes}") acc
    | none => acc) []

def handle : List String → Option String
  | "fs" :: "G" :: rest => do
    let gs := rest.takeWhile (· ≠ "E")
    let rest := (rest.dropWhile (· ≠ "E")).drop 1
    let es := rest.takeWhile (· ≠ "OPS")
    let ops := (rest.dropWhile (· ≠ "OPS")).drop 1
    let gp ← gs.mapM hexToString
    let ep ← es.mapM hexToString
    let g : List File := gp.map fun p => ⟨pathOf p, "g:" ++ p, false, p.endsWith ".go"⟩
    let e : List File := ep.map fun p => ⟨pathOf p, "e:" ++ p, true, p.endsWith ".go"⟩
    let ops ← parseOps (ops.length + 1) ops
    let fs := run id g e ops []
    some (" ".intercalate ((listing fs).map fun (p, c) => s!"{encString p}={c}"))
  | _ => none

end GoaVerif.Drive.FS
