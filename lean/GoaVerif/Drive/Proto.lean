import GoaVerif.Prelude.Hex
import GoaVerif.Model.Proto
/-!
`endpoint <nA> (<name> <tag|~> <union> <security>)* <M <n> <name>* | ~> <nD> <name>* [S]` → (S: the request is streamed)
`<accepted> <wellformed request message>` (names hex-encoded)
-/
namespace GoaVerif.Drive.Proto
open GoaVerif GoaVerif.Proto

def takeN {α} (p : List String → Option (α × List String)) : Nat → List String → Option (List α × List String)
  | 0, ts => some ([], ts)
  | n + 1, ts => do
    let (x, ts) ← p ts
    let (xs, ts) ← takeN p n ts
    pure (x :: xs, ts)

def pAttr : List String → Option (Attr × List String)
  | n :: t :: u :: s :: ts => do
    let tag ← if t == "~" then some none else t.toNat?.map some
    pure (⟨← hexToString n, tag, u == "1", s == "1"⟩, ts)
  | _ => none

def pStr : List String → Option (String × List String)
  | t :: ts => (hexToString t).map (·, ts)
  | [] => none

def handle : List String → Option String
  | "endpoint" :: n :: ts => do
    let (attrs, ts) ← takeN pAttr (← n.toNat?) ts
    let (msg, ts) ← match ts with
      | "~" :: ts => some (none, ts)
      | "M" :: k :: ts => do
        let (names, ts) ← takeN pStr (← k.toNat?) ts
        pure (some names, ts)
      | _ => none
    match ts with
    | k :: ts =>
      let (md, ts) ← takeN pStr (← k.toNat?) ts
      let streaming ← (match ts with
        | ["S"] => some true
        | [] => some false
        | _ => none : Option Bool)
      let e : Endpoint := ⟨attrs, msg, md, streaming⟩
      some s!"{boolTok (accepted e)} {boolTok (wfFields (requestFields e))}"
    | [] => none
  | _ => none

end GoaVerif.Drive.Proto
