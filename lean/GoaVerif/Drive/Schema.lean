import GoaVerif.Prelude.Hex
import GoaVerif.Model.Schema
import GoaVerif.Drive.Validation
/-!
* `judge <att> <val> <val as JSON shows it>` → `<doc> <spec> <agree> <culprit>`: does the schema goa documents the attribute
  with accept the value, does the value satisfy the design, is the attribute in the fragment where
  the two provably coincide, and if not, the first construct that is outside it.
* `schemaof <att>` → the documented schema in the token form below.
* `accepts <schema> <val>` → `1` | `0`: a schema read from a real document against a value.

schema: `Sa` | `Sb` | `Sn <isInt> <lo|~> <hi|~> <rules>` | `Ss <binary> <rules>` | `SA <rules> <schema>` |
`SO <n> (<name> <schema>)* <k> <name>* <rules>` | `SD <0|1> [<schema>] <rules>`; att, val, rules as in
`Drive/Validation.lean`.
-/
namespace GoaVerif.Drive.Schema
open GoaVerif GoaVerif.Validation GoaVerif.Schema GoaVerif.Drive.Validation

def showRat (x : Rat') : String := s!"{x.num}/{x.den}"

def showRules (r : Rules) : String :=
  let items : List String :=
    (if r.hasEnum && !r.enumNums.isEmpty then [s!"en {r.enumNums.length} " ++ " ".intercalate (r.enumNums.map showRat)] else []) ++
    (if r.hasEnum && r.enumNums.isEmpty then [s!"es {r.enumStrs.length}" ++ String.join (r.enumStrs.map fun s => " " ++ encString s)] else []) ++
    (if r.format then ["fmt"] else []) ++ (if r.pattern then ["pat"] else []) ++
    (match r.min with | some x => [s!"min {showRat x}"] | none => []) ++
    (match r.max with | some x => [s!"max {showRat x}"] | none => []) ++
    (match r.exMin with | some x => [s!"xmin {showRat x}"] | none => []) ++
    (match r.exMax with | some x => [s!"xmax {showRat x}"] | none => []) ++
    (match r.minLen with | some x => [s!"minlen {x}"] | none => []) ++
    (match r.maxLen with | some x => [s!"maxlen {x}"] | none => [])
  s!"R {items.length}" ++ String.join (items.map (" " ++ ·))

def optI : Option Int → String
  | some i => toString i
  | none => "~"

partial def showSchema : Schema → String
  | .any => "Sa"
  | .boolean => "Sb"
  | .number i lo hi r => s!"Sn {boolTok i} {optI lo} {optI hi} {showRules r}"
  | .string b r => s!"Ss {boolTok b} {showRules r}"
  | .array r it => s!"SA {showRules r} {showSchema it}"
  | .object ps req r =>
    s!"SO {ps.length}" ++ String.join (ps.map fun (n, s) => s!" {encString n} {showSchema s}") ++
    s!" {req.length}" ++ String.join (req.map fun n => " " ++ encString n) ++ " " ++ showRules r
  | .dict addl r =>
    (match addl with | some s => s!"SD 1 {showSchema s}" | none => "SD 0") ++ " " ++ showRules r

def parseSchema : Nat → List String → Option (Schema × List String)
  | 0, _ => none
  | _ + 1, "Sa" :: ts => some (.any, ts)
  | _ + 1, "Sb" :: ts => some (.boolean, ts)
  | _ + 1, "Sn" :: i :: lo :: hi :: ts => do
    let (r, ts) ← parseRules ts
    pure (.number (i == "1") (← optInt lo) (← optInt hi) r, ts)
  | _ + 1, "Ss" :: b :: ts => do
    let (r, ts) ← parseRules ts
    pure (.string (b == "1") r, ts)
  | f + 1, "SA" :: ts => do
    let (r, ts) ← parseRules ts
    let (it, ts) ← parseSchema f ts
    pure (.array r it, ts)
  | f + 1, "SO" :: n :: ts => do
    let prop : List String → Option ((String × Schema) × List String) := fun
      | name :: ts => do
        let (s, ts) ← parseSchema f ts
        pure ((← hexToString name, s), ts)
      | _ => none
    let (ps, ts) ← takeN prop (← n.toNat?) ts
    match ts with
    | k :: ts =>
      let (req, ts) ← takeN strTok (← k.toNat?) ts
      let (r, ts) ← parseRules ts
      pure (.object ps req r, ts)
    | [] => none
  | f + 1, "SD" :: "1" :: ts => do
    let (s, ts) ← parseSchema f ts
    let (r, ts) ← parseRules ts
    pure (.dict (some s) r, ts)
  | _ + 1, "SD" :: "0" :: ts => do
    let (r, ts) ← parseRules ts
    pure (.dict none r, ts)
  | _, _ => none

/-- the first construct of an attribute that is outside the fragment of `agree` -/
partial def culprit : Att → String
  | .prim (.number true lo hi) _ =>
    if lo == (formatRange lo hi).1 && hi == (formatRange lo hi).2 then "none" else "unsigned-integer-format"
  | .prim (.number false lo hi) _ => if lo.isNone && hi.isNone then "none" else "float-range"
  | .prim .bytes r => if r.minLen.isNone && r.maxLen.isNone then "none" else "bytes-length"
  | .prim _ _ => "none"
  | .arr _ e => culprit e
  | .map r k e =>
    if !(r.minLen.isNone && r.maxLen.isNone) then "map-length" else
    match k with
    | .prim .string kr =>
      if kr.hasEnum || kr.format || kr.pattern || kr.minLen.isSome || kr.maxLen.isSome then "map-key-rules" else culprit e
    | _ => "map-key-type"
  | .obj fields =>
    match (fields.map fun f => culprit f.2.2).find? (· != "none") with
    | some c => c
    | none => if agree (.obj fields) then "none" else "duplicate-names"

def handle : List String → Option String
  | "judge" :: toks => do
    let fuel := toks.length + 2
    let (a, ts) ← parseAtt fuel toks
    let (v, ts) ← parseVal fuel ts         -- the value as the design types it (map keys by the key attribute)
    let (vdoc, ts) ← parseVal fuel ts      -- the same value as JSON shows it (map keys are strings)
    if !ts.isEmpty then none else
    some s!"{boolTok (accepts fuel (schemaOf a) vdoc)} {boolTok (violations fuel a v).isEmpty} {boolTok (agree a)} {culprit a}"
  | "schemaof" :: toks => do
    let (a, ts) ← parseAtt (toks.length + 2) toks
    if !ts.isEmpty then none else some (showSchema (schemaOf a))
  | "accepts" :: toks => do
    let fuel := toks.length + 2
    let (s, ts) ← parseSchema fuel toks
    let (v, ts) ← parseVal fuel ts
    if !ts.isEmpty then none else some (boolTok (accepts fuel s v))
  | _ => none

end GoaVerif.Drive.Schema
