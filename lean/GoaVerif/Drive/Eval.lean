import GoaVerif.Prelude.Hex
import GoaVerif.Model.Eval
/-! Line-protocol front end for the C11 model.

`roots U <fuel> R <k> (<name> <m> dep*m)*k I <c> name*c`
`run   U <fuel> R <k> (<name> <m> dep*m <nsets> (<len> id*len)*nsets <self>)*k
       P <p> (<id> <dsl> <prep> <val> <fin>)*p I <c> name*c`
with `<dsl>` = `~` or `E<n>` followed by n effects (`e<tag>`, `r<name>`, `a<root>:<set>:<expr>`),
`<val>` = `~` or `V<n>` followed by n tags. -/
namespace GoaVerif.Drive.Eval
open GoaVerif GoaVerif.Eval

abbrev P (α : Type) := List String → Option (α × List String)

def tok : P String
  | t :: r => some (t, r)
  | [] => none

def nat : P Nat := fun ts => do
  let (t, r) ← tok ts
  let n ← t.toNat?
  pure (n, r)

def many {α} (p : P α) : Nat → P (List α)
  | 0, ts => some ([], ts)
  | n + 1, ts => do
    let (x, r) ← p ts
    let (xs, r) ← many p n r
    pure (x :: xs, r)

def counted {α} (p : P α) : P (List α) := fun ts => do
  let (n, r) ← nat ts
  many p n r

def expect (s : String) : P Unit := fun ts => do
  let (t, r) ← tok ts
  if t == s then pure ((), r) else none

def pEff : P Eff := fun ts => do
  let (t, r) ← tok ts
  match t.toList with
  | 'e' :: n => (String.ofList n).toNat?.map fun k => (Eff.err k, r)
  | 'r' :: n => some (Eff.register (String.ofList n), r)
  | 'a' :: rest =>
    match (String.ofList rest).splitOn ":" with
    | [root, si, ei] => do
      let s ← si.toNat?
      let e ← ei.toNat?
      pure (Eff.append root s e, r)
    | _ => none
  | _ => none

def pExpr : P Expr := fun ts => do
  let (id, r) ← nat ts
  let (d, r) ← tok r
  let (dsl, r) ← (if d == "~" then some (none, r) else
    match d.toList with
    | 'E' :: n => do
      let k ← (String.ofList n).toNat?
      let (effs, r) ← many pEff k r
      pure (some effs, r)
    | _ => none)
  let (prep, r) ← tok r
  let (v, r) ← tok r
  let (val, r) ← (if v == "~" then some (none, r) else
    match v.toList with
    | 'V' :: n => do
      let k ← (String.ofList n).toNat?
      let (tags, r) ← many nat k r
      pure (some tags, r)
    | _ => none)
  let (fin, r) ← tok r
  pure (⟨id, dsl, prep == "1", val, fin == "1"⟩, r)

def pRootG : P (Name × List Name) := fun ts => do
  let (n, r) ← tok ts
  let (deps, r) ← counted tok r
  pure ((n, deps), r)

def pRootDef : P RootDef := fun ts => do
  let (n, r) ← tok ts
  let (deps, r) ← counted tok r
  let (sets, r) ← counted (counted nat) r
  let (self, r) ← nat r
  pure (⟨n, deps, sets, self⟩, r)

def showRoots : Option (List Name) → String
  | none => "cycle"
  | some l => "order " ++ " ".intercalate l

def phName : Phase → String
  | .dsl => "D" | .prepare => "P" | .validate => "V" | .finalize => "F"

def showRun (r : Result × List Ev) : String :=
  (match r.1 with
   | .cycle => "cycle"
   | .ok => "ok"
   | .errors t => "errors " ++ ",".intercalate (t.map toString)) ++
  " | " ++ " ".intercalate (r.2.map fun e => phName e.phase ++ ":" ++ e.root ++ ":" ++ toString e.expr)

def handle : List String → Option String
  | "roots" :: ts => do
    let (_, r) ← expect "U" ts
    let (fuel, r) ← nat r
    let (_, r) ← expect "R" r
    let (defs, r) ← counted pRootG r
    let (_, r) ← expect "I" r
    let (init, _) ← counted tok r
    let dep := fun n => match defs.find? (·.1 == n) with | some d => d.2 | none => []
    some (showRoots (rootsOrder ⟨init, dep⟩ fuel))
  | "run" :: ts => do
    let (_, r) ← expect "U" ts
    let (fuel, r) ← nat r
    let (_, r) ← expect "R" r
    let (defs, r) ← counted pRootDef r
    let (_, r) ← expect "P" r
    let (pool, r) ← counted pExpr r
    let (_, r) ← expect "I" r
    let (init, _) ← counted tok r
    some (showRun (runDSL ⟨defs, pool⟩ init fuel))
  | _ => none

end GoaVerif.Drive.Eval
