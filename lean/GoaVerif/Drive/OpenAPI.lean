import GoaVerif.Prelude.Hex
import GoaVerif.Model.OpenAPI
/-!
`ops D <k> (<method> <path>)* M <k> (<method> <pattern>)*` → `docOnly=<method:path,…|~> mountOnly=<…|~>`
  (mounted patterns are rewritten with `template` first) ·
`pp <template> <k> <name>*` → `noParam=<name,…|~> noVar=<name,…|~>` · `tmpl <pattern>` → template. Strings hex.
-/
namespace GoaVerif.Drive.OpenAPI
open GoaVerif GoaVerif.OpenAPI

def takeOps (conv : String → String) : Nat → List String → Option (List Op × List String)
  | 0, ts => some ([], ts)
  | n + 1, m :: p :: ts => do
    let path ← hexToString p
    let (r, ts) ← takeOps conv n ts
    pure ((m, conv path) :: r, ts)
  | _, _ => none

def takeNames : Nat → List String → Option (List String × List String)
  | 0, ts => some ([], ts)
  | n + 1, t :: ts => do
    let s ← hexToString t
    let (r, ts) ← takeNames n ts
    pure (s :: r, ts)
  | _, _ => none

def showOps (l : List Op) : String :=
  if l.isEmpty then "~" else ",".intercalate (l.map fun o => o.1 ++ ":" ++ encString o.2)

def showNames (l : List String) : String :=
  if l.isEmpty then "~" else ",".intercalate (l.map encString)

def handle : List String → Option String
  | "ops" :: "D" :: k :: ts => do
    let (d, ts) ← takeOps id (← k.toNat?) ts
    match ts with
    | "M" :: k2 :: ts => do
      let (m, ts) ← takeOps template (← k2.toNat?) ts
      if !ts.isEmpty then none else
      let r := opsDiff d m
      some s!"docOnly={showOps r.1} mountOnly={showOps r.2}"
    | _ => none
  | "pp" :: t :: k :: ts => do
    let (names, rest) ← takeNames (← k.toNat?) ts
    if !rest.isEmpty then none else
    let r := pathParamDiff (← hexToString t) names
    some s!"noParam={showNames r.1} noVar={showNames r.2}"
  | ["tmpl", p] => do some (encString (template (← hexToString p)))
  | _ => none

end GoaVerif.Drive.OpenAPI
