import GoaVerif.Prelude.Hex
import GoaVerif.Model.Closure
/-!
`closure <design>` → `closed` | `dangling <kind>:<owner>:<name> …` (names hex-encoded)

design: `D <schemes> <errors> <httpErrors> <apiSchemes> <nS> (S <name> <errors> <httpErrors> <schemes> <nM>
 (M <name> <payload> <result> <errors> <params> <headers> <cookies> <body> <respAttrs> <httpErrors> <schemes> <view|~> <views> <attrs of view>*)*)*`
where every list is `L <n> <hex>*`.
-/
namespace GoaVerif.Drive.Closure
open GoaVerif GoaVerif.Closure

def takeN {α} (p : List String → Option (α × List String)) : Nat → List String → Option (List α × List String)
  | 0, ts => some ([], ts)
  | n + 1, ts => do
    let (x, ts) ← p ts
    let (xs, ts) ← takeN p n ts
    pure (x :: xs, ts)

def pStr : List String → Option (String × List String)
  | t :: ts => (hexToString t).map (·, ts)
  | [] => none

def pList : List String → Option (List String × List String)
  | "L" :: n :: ts => do takeN pStr (← n.toNat?) ts
  | _ => none

def pMethod : List String → Option (Method × List String)
  | "M" :: name :: ts => do
    let (payload, ts) ← pList ts
    let (result, ts) ← pList ts
    let (errors, ts) ← pList ts
    let (params, ts) ← pList ts
    let (headers, ts) ← pList ts
    let (cookies, ts) ← pList ts
    let (body, ts) ← pList ts
    let (resp, ts) ← pList ts
    let (herrs, ts) ← pList ts
    let (schemes, ts) ← pList ts
    match ts with
    | v :: ts =>
      let view ← if v == "~" then some none else (hexToString v).map some
      let (views, ts) ← pList ts
      -- one attribute list per view, in the order of `views`
      let (vattrs, ts) ← takeN pList views.length ts
      pure (⟨← hexToString name, payload, result, errors, params, headers, cookies, body, resp, herrs, schemes, view, views, views.zip vattrs⟩, ts)
    | [] => none
  | _ => none

def pService : List String → Option (Service × List String)
  | "S" :: name :: ts => do
    let (errors, ts) ← pList ts
    let (herrs, ts) ← pList ts
    let (schemes, ts) ← pList ts
    match ts with
    | n :: ts =>
      let (ms, ts) ← takeN pMethod (← n.toNat?) ts
      pure (⟨← hexToString name, errors, herrs, schemes, ms⟩, ts)
    | [] => none
  | _ => none

def handle : List String → Option String
  | "closure" :: "D" :: ts => do
    let (schemes, ts) ← pList ts
    let (errors, ts) ← pList ts
    let (herrs, ts) ← pList ts
    let (api, ts) ← pList ts
    match ts with
    | n :: ts =>
      let (ss, ts) ← takeN pService (← n.toNat?) ts
      -- optional trailer: `V <n> (<owner> <view> <views>)*`
      let (avs, ts) ← (match ts with
        | "V" :: k :: ts => do
          takeN (fun ts => do
            let (o, ts) ← pStr ts
            let (v, ts) ← pStr ts
            let (vs, ts) ← pList ts
            pure ((⟨o, v, vs⟩ : AttrView), ts)) (← k.toNat?) ts
        | ts => some ([], ts))
      if !ts.isEmpty then none else
      let d : Design := ⟨schemes, errors, herrs, api, ss, avs⟩
      match dangling d with
      | [] => some "closed"
      | ds => some ("dangling " ++ " ".intercalate (ds.map fun x => s!"{x.kind}:{encString x.owner}:{encString x.name}"))
    | [] => none
  | _ => none

end GoaVerif.Drive.Closure
