import GoaVerif.Prelude.Hex
import GoaVerif.Model.Errors
import GoaVerif.Generated.TrStatus
import GoaVerif.Generated.TrGrpcerr
/-! Line-protocol front end for the C18 model (`merge <tree>`). -/
namespace GoaVerif.Drive.Errors
open GoaVerif GoaVerif.Errors

def optField (tok : String) : Option (Option String) :=
  if tok == "~" then some none else (hexToString tok).map some

def parseSE : List String → Option (SE × List String)
  | n :: f :: m :: fl :: c :: rest => do
    let name ← hexToString n
    let field ← optField f
    let msg ← hexToString m
    let flags ← fl.toNat?
    let causes ← if c == "~" then some [] else c.toNat?.map (fun k => [k])
    pure (⟨name, field, msg, flags % 2 == 1, (flags / 2) % 2 == 1, (flags / 4) % 2 == 1, [], causes⟩, rest)
  | _ => none

/-- prefix-notation tree parser; `fuel` bounds the recursion by the token count. -/
def parseTree : Nat → List String → Option (Tree × List String)
  | 0, _ => none
  | _ + 1, "Z" :: rest => some (.leaf .nil, rest)
  | _ + 1, "P" :: c :: m :: rest => do
    let cid ← c.toNat?
    let msg ← hexToString m
    pure (.leaf (.plain cid msg), rest)
  | _ + 1, "S" :: rest => do
    let (e, rest) ← parseSE rest
    pure (.leaf (.svc e), rest)
  | _ + 1, "W" :: rest => do
    let (e, rest) ← parseSE rest
    pure (.leaf (.wrapSvc e), rest)
  | fuel + 1, "N" :: rest => do
    let (l, rest) ← parseTree fuel rest
    let (r, rest) ← parseTree fuel rest
    pure (.node l r, rest)
  | _, _ => none

def showSnap (s : Snap) : String :=
  encString s.name ++ "|" ++ (match s.field with | none => "~" | some f => encString f) ++ "|" ++ encString s.msg

def insertSorted (x : Nat) : List Nat → List Nat
  | [] => [x]
  | y :: ys => if x ≤ y then x :: y :: ys else y :: insertSorted x ys

def sortNat (l : List Nat) : List Nat := l.foldr insertSorted []

def showSE (kind : String) (e : SE) : String :=
  kind ++ " name=" ++ encString e.name ++
    " field=" ++ (match e.field with | none => "~" | some f => encString f) ++
    " msg=" ++ encString e.msg ++
    " flags=" ++ toString ((if e.timeout then 1 else 0) + (if e.temporary then 2 else 0) + (if e.fault then 4 else 0)) ++
    " hist=[" ++ ",".intercalate (e.history.map showSnap) ++ "]" ++
    " causes=[" ++ ",".intercalate ((sortNat e.causes).map toString) ++ "]"

def showErr : GoErr → String
  | .nil => "nil"
  | .plain _ m => "plain msg=" ++ encString m
  | .svc e => showSE "svc" e
  | .wrapSvc e => showSE "wrap" e

def handle : List String → Option String
  | "merge" :: toks =>
    match parseTree (toks.length + 1) toks with
    | some (t, []) => some (showErr (mergeTree t))
    | _ => some "bad-op"
  | ["status", n, f] => do
    let name ← hexToString n
    let fl ← f.toNat?
    some (toString (Generated.TrStatus.httpStatusCode
      { Name := name, Timeout := fl % 2 == 1, Temporary := (fl / 2) % 2 == 1, Fault := (fl / 4) % 2 == 1 }))
  | ["grpccode", n, f] => do
    let name ← hexToString n
    let fl ← f.toNat?
    some (toString (Generated.TrGrpcerr.grpcErrorCode
      { Name := name, Timeout := fl % 2 == 1, Temporary := (fl / 2) % 2 == 1, Fault := (fl / 4) % 2 == 1 }))
  | ["grpcrt", n, i, m, f] => do
    let name ← hexToString n
    let id ← hexToString i
    let msg ← hexToString m
    let fl ← f.toNat?
    let e : Generated.TrGrpcerr.ServiceError :=
      { Name := name, ID := id, Message := msg, Timeout := fl % 2 == 1, Temporary := (fl / 2) % 2 == 1, Fault := (fl / 4) % 2 == 1 }
    let b := Generated.TrGrpcerr.newServiceError (Generated.TrGrpcerr.newErrorResponse e)
    some (encString b.Name ++ " " ++ encString b.ID ++ " " ++ encString b.Message ++ " " ++
      toString ((if b.Timeout then 1 else 0) + (if b.Temporary then 2 else 0) + (if b.Fault then 4 else 0)))
  | _ => none

end GoaVerif.Drive.Errors
