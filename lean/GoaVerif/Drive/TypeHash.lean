import GoaVerif.Prelude.Hex
import GoaVerif.Model.TypeHash
import GoaVerif.Model.DupHeap
import GoaVerif.Lemmas.DupEq
/-! Line-protocol front end for the C13 hash model (graph format: see harness/cmd/rtexpr). -/
namespace GoaVerif.Drive.TypeHash
open GoaVerif GoaVerif.TypeHash

abbrev P (α : Type) := List String → Option (α × List String)

def tok : P String
  | t :: r => some (t, r)
  | [] => none

def nat : P Nat := fun ts => do
  let (t, r) ← tok ts
  pure (← t.toNat?, r)

def many {α} (p : P α) : Nat → P (List α)
  | 0, ts => some ([], ts)
  | n + 1, ts => do
    let (x, r) ← p ts
    let (xs, r) ← many p n r
    pure (x :: xs, r)

def pField : P (String × Nat) := fun ts => do
  let (n, r) ← tok ts
  let (a, r) ← nat r
  pure ((← hexToString n, a), r)

def pNode : P Node := fun ts => do
  let (t, r) ← tok ts
  match t.splitOn ":" with
  | ["p", name] => pure (.prim name, r)
  | ["a", e] => pure (.arr (← e.toNat?), r)
  | ["m", k, e] => pure (.map (← k.toNat?) (← e.toNat?), r)
  | ["o", k] => do
    let (fs, r) ← many pField (← k.toNat?) r
    pure (.obj fs, r)
  | ["u", name, k] => do
    let (fs, r) ← many pField (← k.toNat?) r
    pure (.union (← hexToString name) fs, r)
  | ["t", name, a, k] => pure (.user (← hexToString name) (← a.toNat?) (k == "r"), r)
  | _ => none

def pMeta : P (String × List String) := fun ts => do
  let (k, r) ← tok ts
  let (n, r) ← nat r
  let (vs, r) ← many (fun ts => do let (v, r) ← tok ts; pure (← hexToString v, r)) n r
  pure ((← hexToString k, vs), r)

/-- attribute plus whether it carries a validation (`v`) -/
def pAttrV : P (Attr × Bool) := fun ts => do
  let (ty, r) ← nat ts
  let (n, r) ← nat r
  let (md, r) ← many pMeta n r
  let (v, r) ← tok r
  pure ((⟨ty, md⟩, v == "v"), r)

def pGraphV : P (Graph × List Bool) := fun ts => do
  let (_, r) ← tok ts
  let (n, r) ← nat r
  let (nodes, r) ← many pNode n r
  let (_, r) ← tok r
  let (m, r) ← nat r
  let (atts, r) ← many pAttrV m r
  pure ((⟨nodes, atts.map (·.1)⟩, atts.map (·.2)), r)

def pGraph : P Graph := fun ts => do
  let ((g, _), r) ← pGraphV ts
  pure (g, r)

/-! ### the same graph as a heap (Model/DupHeap.lean)
Layout: type nodes at 0..N-1, attributes at N..N+M-1, then one container cell per attribute for its
metadata (when it has any) and its validation (when it has one), then one `Views` cell per result type. -/

open GoaVerif.DupHeap in
def toHeap (g : Graph) (vals : List Bool) : List Cell :=
  let n := g.nodes.length
  let m := g.atts.length
  -- addresses of the containers, in allocation order
  let mdAddr : List (Option Nat) := (g.atts.foldl (fun (acc : List (Option Nat) × Nat) a =>
      if a.md.isEmpty then (acc.1 ++ [none], acc.2) else (acc.1 ++ [some acc.2], acc.2 + 1)) ([], n + m)).1
  let nMd := (g.atts.filter (fun a => !a.md.isEmpty)).length
  let valAddr : List (Option Nat) := (vals.foldl (fun (acc : List (Option Nat) × Nat) v =>
      if v then (acc.1 ++ [some acc.2], acc.2 + 1) else (acc.1 ++ [none], acc.2)) ([], n + m + nMd)).1
  let nVal := (vals.filter id).length
  let viewAddr : List (Option Nat) := (g.nodes.foldl (fun (acc : List (Option Nat) × Nat) nd =>
      match nd with
      | .user _ _ true => (acc.1 ++ [some acc.2], acc.2 + 1)
      | _ => (acc.1 ++ [none], acc.2)) ([], n + m + nMd + nVal)).1
  let typeCells : List Cell := g.nodes.zipIdx.map fun (nd, i) =>
    match nd with
    | .prim s => Cell.prim s
    | .arr e => Cell.arr (n + e)
    | .map k e => Cell.map (n + k) (n + e)
    | .obj fs => Cell.obj (fs.map fun f => (f.1, n + f.2))
    | .union nm vs => Cell.union nm (vs.map fun f => (f.1, n + f.2))
    | .user _ a _ => Cell.user (toString i) (n + a) ((viewAddr[i]?).getD none)
  let attCells : List Cell := g.atts.zipIdx.map fun (a, i) =>
    Cell.att a.ty ((mdAddr[i]?).getD none) ((valAddr[i]?).getD none)
  typeCells ++ attCells ++ List.replicate nMd (Cell.blob "meta") ++ List.replicate nVal (Cell.blob "validation")
    ++ List.replicate ((viewAddr.filter Option.isSome).length) (Cell.blob "views")

open GoaVerif.DupHeap in
/-- kinds of the non-primitive cells of the ORIGINAL that are reachable from the copy (following the
    views pointer too): what copy and original share -/
def sharedKinds (heap' : List Cell) (n0 root fuel : Nat) : List String :=
  let rec go : Nat → List Nat → List Nat → List String → List String
    | 0, _, _, acc => acc
    | _, [], _, acc => acc
    | f + 1, x :: todo, seen, acc =>
      if seen.contains x then go f todo seen acc else
      match heap'[x]? with
      | none => go f todo (x :: seen) acc
      | some c =>
        let kind : Option String :=
          if x < n0 then
            match c with
            | .prim _ => none
            | .blob "views" => some "ResultTypeExpr.Views"
            | .blob s => some ("container:" ++ s)
            | .att .. => some "AttributeExpr"
            | _ => some "type"
          else none
        let next := c.ptrs ++ (match c with | .user _ _ (some v) => [v] | _ => [])
        let acc' := match kind with
          | some k => if acc.contains k then acc else acc ++ [k]
          | none => acc
        -- cells of the original are not followed further: what hangs below a shared cell is shared with it
        go f (if x < n0 then todo else next ++ todo) (x :: seen) acc'
  go fuel [root] [] []

open GoaVerif.DupHeap in
/-- a printable form of an observation (the trees have no decidable equality of their own) -/
partial def showTree : Tree → String
  | .cut => "…" | .bad => "!"
  | .prim n => "p:" ++ n
  | .arr e => "[" ++ showTree e ++ "]"
  | .map k e => "{" ++ showTree k ++ ":" ++ showTree e ++ "}"
  | .obj fs => "o(" ++ ",".intercalate (fs.map fun f => f.1 ++ "=" ++ showTree f.2) ++ ")"
  | .union n vs => "u" ++ n ++ "(" ++ ",".intercalate (vs.map fun f => f.1 ++ "=" ++ showTree f.2) ++ ")"
  | .user id a => "t:" ++ id ++ "<" ++ showTree a ++ ">"
  | .att t m v => "a(" ++ showTree t ++ ";" ++ (match m with | some x => showTree x | none => "-") ++ ";" ++
      (match v with | some x => showTree x | none => "-") ++ ")"
  | .blob s => "b:" ++ s

def handle : List String → Option String
  | "hash" :: f :: root :: rest => do
    let fl ← f.toNat?
    let rt ← root.toNat?
    let (g, _) ← pGraph rest
    let flags : Flags := ⟨fl % 2 == 1, (fl / 2) % 2 == 1, (fl / 4) % 2 == 1⟩
    some (encString (hashOf g flags (2 * (g.nodes.length + g.atts.length) + 4) rt))
  | "props" :: _ :: root :: rest => do
    let rt ← root.toNat?
    let ((g, vals), _) ← pGraphV rest
    let heap := toHeap g vals
    let fuel := 2 * heap.length + 4
    match GoaVerif.DupHeap.dupTop fuel heap rt with
    | some (r, heap') =>
      let ks := sharedKinds heap' heap.length r (4 * heap'.length + 4)
      -- the hypotheses of `dup_equal` and the equality it proves, observed to depth 7
      let hyp := (if GoaVerif.DupHeap.closedB heap then "1" else "0") ++ (if GoaVerif.DupHeap.uniqueIdsB heap then "1" else "0")
      let eq := showTree (GoaVerif.DupHeap.obs 7 heap' r) == showTree (GoaVerif.DupHeap.obs 7 heap rt)
      some ("dup_shared=[" ++ ",".intercalate ks ++ "] cells=" ++ toString (heap'.length - heap.length) ++
        " eq_hyp=" ++ hyp ++ " copy_equal=" ++ (if eq then "1" else "0"))
    | none => some "dup=none"
  | _ => none

end GoaVerif.Drive.TypeHash
