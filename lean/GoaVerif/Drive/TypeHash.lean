import GoaVerif.Prelude.Hex
import GoaVerif.Model.TypeHash
/-! Line-protocol front end for the C13 hash model (graph format: see harness/cmd/rtexpr). -/
namespace GoaVerif.Drive.TypeHash
open GoaVerif GoaVerif.TypeHash

abbrev P (α : Type) := List String → Option (α × List String)

def tok : P String
  | t :: r => some (t, r)
  | [] => none

def nat : P Nat := fun ts => do
  let (t, r) ← tok ts
  pure (← t.toNat?, r)

def many {α} (p : P α) : Nat → P (List α)
  | 0, ts => some ([], ts)
  | n + 1, ts => do
    let (x, r) ← p ts
    let (xs, r) ← many p n r
    pure (x :: xs, r)

def pField : P (String × Nat) := fun ts => do
  let (n, r) ← tok ts
  let (a, r) ← nat r
  pure ((← hexToString n, a), r)

def pNode : P Node := fun ts => do
  let (t, r) ← tok ts
  match t.splitOn ":" with
  | ["p", name] => pure (.prim name, r)
  | ["a", e] => pure (.arr (← e.toNat?), r)
  | ["m", k, e] => pure (.map (← k.toNat?) (← e.toNat?), r)
  | ["o", k] => do
    let (fs, r) ← many pField (← k.toNat?) r
    pure (.obj fs, r)
  | ["u", name, k] => do
    let (fs, r) ← many pField (← k.toNat?) r
    pure (.union (← hexToString name) fs, r)
  | ["t", name, a, k] => pure (.user (← hexToString name) (← a.toNat?) (k == "r"), r)
  | _ => none

def pMeta : P (String × List String) := fun ts => do
  let (k, r) ← tok ts
  let (n, r) ← nat r
  let (vs, r) ← many (fun ts => do let (v, r) ← tok ts; pure (← hexToString v, r)) n r
  pure ((← hexToString k, vs), r)

def pAttr : P Attr := fun ts => do
  let (ty, r) ← nat ts
  let (n, r) ← nat r
  let (md, r) ← many pMeta n r
  let (_, r) ← tok r
  pure (⟨ty, md⟩, r)

def pGraph : P Graph := fun ts => do
  let (_, r) ← tok ts
  let (n, r) ← nat r
  let (nodes, r) ← many pNode n r
  let (_, r) ← tok r
  let (m, r) ← nat r
  let (atts, r) ← many pAttr m r
  pure (⟨nodes, atts⟩, r)

def handle : List String → Option String
  | "hash" :: f :: root :: rest => do
    let fl ← f.toNat?
    let rt ← root.toNat?
    let (g, _) ← pGraph rest
    let flags : Flags := ⟨fl % 2 == 1, (fl / 2) % 2 == 1, (fl / 4) % 2 == 1⟩
    some (encString (hashOf g flags (2 * (g.nodes.length + g.atts.length) + 4) rt))
  | "props" :: _ => some "-"
  | _ => none

end GoaVerif.Drive.TypeHash
