import GoaVerif.Prelude.Hex
import GoaVerif.Model.Validation
import GoaVerif.Lemmas.ValCode
import GoaVerif.Model.VMerge
/-!
`validate <att> <val>` → `called` | `rejected <first> <names,sorted,unique>` ·
`compile <att>` → `code <canonical statements>`: `ValCode.compileBody`, printed like `rtvalcode run` prints
the Go code the real generator emits · `runcode <att> <val>` → verdict of `ValCode.runL (compileBody att) val`
in the format of `validate` (first = `-`) · `hasval <att>` → `hasval=<0|1>`: `!noRules` (the generator's `hasValidations`) · `judge <att> <val>` →
`spec=<called|rejected:names> model=<…> hyp=<okCtx typed noBothEx collOK>` (compared with `rtvalcode run`, which reads the
Go code the real generator emits on the same value).

Prefix encoding (built by vlib/c04.py from the design IR and the value sent):
* att: `P b|s|y <rules>` · `P n <isInt> <lo|~> <hi|~> <rules>` · `A <rules> <att>` ·
  `M <rules> <att> <att>` · `O <n> (<hexname> <req> <att>)*`
* rules: `R <k> <item>*`, items `en <n> <rat>*` · `es <n> <hex>*` · `fmt` · `pat` · `min <rat>` ·
  `max <rat>` · `xmin <rat>` · `xmax <rat>` · `minlen <n>` · `maxlen <n>`; rat is `num/den`
* val: `_` · `t` · `f` · `n <rat>` · `s <hex> <fmtOk> <patOk>` · `y <len>` · `a <n> <val>*` ·
  `m <n> (<val> <val>)*` · `o <n> (<hexname> <val>)*`
-/
namespace GoaVerif.Drive.Validation
open GoaVerif GoaVerif.Validation

def parseRat (t : String) : Option Rat' :=
  match t.splitOn "/" with
  | [n, d] => do
    let n ← n.toInt?
    let d ← d.toNat?
    if d == 0 then none else some ⟨n, d⟩
  | _ => none

def optInt (t : String) : Option (Option Int) :=
  if t == "~" then some none else t.toInt?.map some

def takeN {α} (p : List String → Option (α × List String)) : Nat → List String → Option (List α × List String)
  | 0, ts => some ([], ts)
  | n + 1, ts => do
    let (x, ts) ← p ts
    let (xs, ts) ← takeN p n ts
    pure (x :: xs, ts)

def ratTok : List String → Option (Rat' × List String)
  | t :: ts => (parseRat t).map (·, ts)
  | [] => none

def strTok : List String → Option (String × List String)
  | t :: ts => (hexToString t).map (·, ts)
  | [] => none

def ruleItems : Nat → Rules → List String → Option (Rules × List String)
  | 0, r, ts => some (r, ts)
  | k + 1, r, "en" :: n :: ts => do
    let (xs, ts) ← takeN ratTok (← n.toNat?) ts
    ruleItems k { r with enumNums := xs, hasEnum := true } ts
  | k + 1, r, "es" :: n :: ts => do
    let (xs, ts) ← takeN strTok (← n.toNat?) ts
    ruleItems k { r with enumStrs := xs, hasEnum := true } ts
  | k + 1, r, "fmt" :: ts => ruleItems k { r with format := true } ts
  | k + 1, r, "pat" :: ts => ruleItems k { r with pattern := true } ts
  | k + 1, r, "min" :: x :: ts => do ruleItems k { r with min := some (← parseRat x) } ts
  | k + 1, r, "max" :: x :: ts => do ruleItems k { r with max := some (← parseRat x) } ts
  | k + 1, r, "xmin" :: x :: ts => do ruleItems k { r with exMin := some (← parseRat x) } ts
  | k + 1, r, "xmax" :: x :: ts => do ruleItems k { r with exMax := some (← parseRat x) } ts
  | k + 1, r, "minlen" :: x :: ts => do ruleItems k { r with minLen := some (← x.toNat?) } ts
  | k + 1, r, "maxlen" :: x :: ts => do ruleItems k { r with maxLen := some (← x.toNat?) } ts
  | _, _, _ => none

def parseRules : List String → Option (Rules × List String)
  | "R" :: k :: ts => do ruleItems (← k.toNat?) {} ts
  | _ => none

def parseAtt : Nat → List String → Option (Att × List String)
  | 0, _ => none
  | _ + 1, "P" :: "b" :: ts => do let (r, ts) ← parseRules ts; pure (.prim .boolean r, ts)
  | _ + 1, "P" :: "s" :: ts => do let (r, ts) ← parseRules ts; pure (.prim .string r, ts)
  | _ + 1, "P" :: "y" :: ts => do let (r, ts) ← parseRules ts; pure (.prim .bytes r, ts)
  | _ + 1, "P" :: "n" :: i :: lo :: hi :: ts => do
    let (r, ts) ← parseRules ts
    pure (.prim (.number (i == "1") (← optInt lo) (← optInt hi)) r, ts)
  | f + 1, "A" :: ts => do
    let (r, ts) ← parseRules ts
    let (e, ts) ← parseAtt f ts
    pure (.arr r e, ts)
  | f + 1, "M" :: ts => do
    let (r, ts) ← parseRules ts
    let (k, ts) ← parseAtt f ts
    let (e, ts) ← parseAtt f ts
    pure (.map r k e, ts)
  | f + 1, "O" :: n :: ts => do
    let field : List String → Option ((String × Bool × Att) × List String) := fun
      | name :: req :: ts => do
        let (a, ts) ← parseAtt f ts
        pure ((← hexToString name, req == "1", a), ts)
      | _ => none
    let (fs, ts) ← takeN field (← n.toNat?) ts
    pure (.obj fs, ts)
  | _, _ => none

def parseVal : Nat → List String → Option (Val × List String)
  | 0, _ => none
  | _ + 1, "_" :: ts => some (.absent, ts)
  | _ + 1, "t" :: ts => some (.bool true, ts)
  | _ + 1, "f" :: ts => some (.bool false, ts)
  | _ + 1, "n" :: x :: ts => do pure (.num (← parseRat x), ts)
  | _ + 1, "s" :: h :: fo :: po :: ts => do pure (.str (← hexToString h) (fo == "1") (po == "1"), ts)
  | _ + 1, "y" :: n :: ts => do pure (.bytes (← n.toNat?), ts)
  | f + 1, "a" :: n :: ts => do
    let (vs, ts) ← takeN (parseVal f) (← n.toNat?) ts
    pure (.arr vs, ts)
  | f + 1, "m" :: n :: ts => do
    let pair : List String → Option ((Val × Val) × List String) := fun ts => do
      let (k, ts) ← parseVal f ts
      let (v, ts) ← parseVal f ts
      pure ((k, v), ts)
    let (kvs, ts) ← takeN pair (← n.toNat?) ts
    pure (.map kvs, ts)
  | f + 1, "o" :: n :: ts => do
    let field : List String → Option ((String × Val) × List String) := fun
      | name :: ts => do
        let (v, ts) ← parseVal f ts
        pure ((← hexToString name, v), ts)
      | _ => none
    let (fs, ts) ← takeN field (← n.toNat?) ts
    pure (.obj fs, ts)
  | _, _ => none

def insertSorted (s : String) : List String → List String
  | [] => [s]
  | x :: xs => if s < x then s :: x :: xs else if s == x then x :: xs else x :: insertSorted s xs

def render : Outcome → String
  | .called => "called"
  | .rejected first all =>
    "rejected " ++ first.name ++ " " ++ ",".intercalate (all.foldl (fun acc v => insertSorted v.name acc) [])

def ratStr (r : Rat') : String := s!"{r.num}/{r.den}"

def goify (n : String) : String := n.capitalize

open GoaVerif.ValCode in
def condStr : Cond → String
  | .notInNums xs => "enumn[" ++ ",".intercalate (xs.map ratStr) ++ "]"
  | .notInStrs xs => "enums[" ++ ",".intercalate (xs.map encString) ++ "]"
  | .badFormat => "fmt"
  | .badPattern => "pat"
  | .lt b => "lt:" ++ ratStr b
  | .gt b => "gt:" ++ ratStr b
  | .le b => "le:" ++ ratStr b
  | .ge b => "ge:" ++ ratStr b
  | .runesLt n => s!"runeslt:{n}"
  | .runesGt n => s!"runesgt:{n}"
  | .lenLt n => s!"lenlt:{n}"
  | .lenGt n => s!"lengt:{n}"

open GoaVerif.ValCode in
mutual
def show1 (t : String) : Code → String
  | .check v c => "chk(" ++ v.name ++ "," ++ condStr c ++ "," ++ t ++ ");"
  | .ifNonNil b => "nn(" ++ t ++ "){" ++ showL t b ++ "};"
  | .field n b => showL (t ++ "." ++ goify n) b
  | .missing n => "miss(" ++ t ++ "." ++ goify n ++ ");"
  | .each b => "each(" ++ t ++ "){" ++ showL "e" b ++ "};"
  | .eachKV k e => "kv(" ++ t ++ "){" ++ showL "k" k ++ "}{" ++ showL "v" e ++ "};"
def showL (t : String) : List Code → String
  | [] => ""
  | c :: cs => show1 t c ++ showL t cs
end

/-- specification verdict, verdict of the model's code, and the hypotheses of `emitted_code_gates`;
    `withEnv`: the value is followed by `ENV …` (the attribute with its named types, for the Go side) -/
def judgeLine (toks : List String) (withEnv : Bool) : Option String := do
  let fuel := toks.length + 2
  let (a, ts) ← parseAtt fuel toks
  let (v, ts) ← parseVal fuel ts
  if (if withEnv then ts.head? != some "ENV" else !ts.isEmpty) then none else
  let names (l : List Viol) : String :=
    if l.isEmpty then "called" else "rejected:" ++ ",".intercalate (l.foldl (fun acc v => insertSorted v.name acc) [])
  let bit (b : Bool) : String := if b then "1" else "0"
  some ("spec=" ++ names (violations fuel a v) ++ " model=" ++ names (GoaVerif.ValCode.runL (GoaVerif.ValCode.compileBody fuel a) v) ++
    " hyp=" ++ bit (GoaVerif.ValCode.okCtx fuel true a) ++ bit (GoaVerif.ValCode.typed fuel a v) ++
    bit (GoaVerif.ValCode.noBothEx fuel a) ++ bit (GoaVerif.ValCode.collOK fuel a v))

/-! `vmerge <V> <V>`; V = `F <hex> P <hex> E <~|n hex*> xm <~|int> m .. xM .. M .. l .. L .. R <n> <hex>*` -/
def optBound (s : String) : Option (Option Int) := if s == "~" then some none else s.toInt?.map some

def takeHex : Nat → List String → List String → Option (List String × List String)
  | 0, ts, acc => some (acc.reverse, ts)
  | n + 1, t :: ts, acc => do takeHex n ts ((← hexToString t) :: acc)
  | _, [], _ => none

def parseV : List String → Option (GoaVerif.VMerge.V × List String)
  | "F" :: f :: "P" :: p :: "E" :: rest => do
    let f ← hexToString f
    let p ← hexToString p
    let (vals, rest) ← (match rest with
      | "~" :: r => some (none, r)
      | n :: r => do let (xs, r) ← takeHex (← n.toNat?) r []; some (some xs, r)
      | [] => none)
    match rest with
    | "xm" :: a :: "m" :: b :: "xM" :: c :: "M" :: d :: "l" :: e :: "L" :: g :: "R" :: n :: r =>
      let (req, r) ← takeHex (← n.toNat?) r []
      some ({ values := vals, format := f, pattern := p, exMin := ← optBound a, min := ← optBound b, exMax := ← optBound c, max := ← optBound d,
              minLen := ← optBound e, maxLen := ← optBound g, required := req }, r)
    | _ => none
  | _ => none

def showOpt : Option Int → String
  | none => "~"
  | some n => toString n

def showV (v : GoaVerif.VMerge.V) : String :=
  " ".intercalate (["F", encString v.format, "P", encString v.pattern, "E"] ++
    (match v.values with | none => ["~"] | some xs => toString xs.length :: xs.map encString) ++
    ["xm", showOpt v.exMin, "m", showOpt v.min, "xM", showOpt v.exMax, "M", showOpt v.max, "l", showOpt v.minLen, "L", showOpt v.maxLen,
     "R", toString v.required.length] ++ v.required.map encString)

def handle : List String → Option String
  | "vmerge" :: toks => do
    let (v, ts) ← parseV toks
    let (o, ts) ← parseV ts
    if !ts.isEmpty then none else
    some ("merged " ++ showV (GoaVerif.VMerge.merge v o))
  | "validate" :: toks => do
    let fuel := toks.length + 2
    let (a, ts) ← parseAtt fuel toks
    let (v, ts) ← parseVal fuel ts
    if !ts.isEmpty then none else
    some (render (GoaVerif.Validation.handle fuel a v))
  | "compile" :: toks => do
    let fuel := toks.length + 2
    let (a, ts) ← parseAtt fuel toks
    if !ts.isEmpty then none else
    some ("code " ++ showL "body" (GoaVerif.ValCode.compileBody fuel a))
  | "hasval" :: toks => do
    let fuel := toks.length + 2
    let (a, ts) ← parseAtt fuel toks
    if !ts.isEmpty then none else
    some (if GoaVerif.ValCode.noRules fuel a then "hasval=0" else "hasval=1")
  | "judge" :: toks => judgeLine toks false
  | "judgeu" :: toks => judgeLine toks true
  | "runcode" :: toks => do
    let fuel := toks.length + 2
    let (a, ts) ← parseAtt fuel toks
    let (v, ts) ← parseVal fuel ts
    if !ts.isEmpty then none else
    match GoaVerif.ValCode.runL (GoaVerif.ValCode.compileBody fuel a) v with
    | [] => some "called"
    | all => some ("rejected - " ++ ",".intercalate (all.foldl (fun acc v => insertSorted v.name acc) []))
  | _ => none

end GoaVerif.Drive.Validation
