import GoaVerif.Prelude.Hex
import GoaVerif.Model.Validation
/-!
`validate <att> <val>` → `called` | `rejected <first> <names,sorted,unique>`.

Prefix encoding (built by vlib/c04.py from the design IR and the value sent):
* att: `P b|s|y <rules>` · `P n <isInt> <lo|~> <hi|~> <rules>` · `A <rules> <att>` ·
  `M <rules> <att> <att>` · `O <n> (<hexname> <req> <att>)*`
* rules: `R <k> <item>*`, items `en <n> <rat>*` · `es <n> <hex>*` · `fmt` · `pat` · `min <rat>` ·
  `max <rat>` · `xmin <rat>` · `xmax <rat>` · `minlen <n>` · `maxlen <n>`; rat is `num/den`
* val: `_` · `t` · `f` · `n <rat>` · `s <hex> <fmtOk> <patOk>` · `y <len>` · `a <n> <val>*` ·
  `m <n> (<val> <val>)*` · `o <n> (<hexname> <val>)*`
-/
namespace GoaVerif.Drive.Validation
open GoaVerif GoaVerif.Validation

def parseRat (t : String) : Option Rat' :=
  match t.splitOn "/" with
  | [n, d] => do
    let n ← n.toInt?
    let d ← d.toNat?
    if d == 0 then none else some ⟨n, d⟩
  | _ => none

def optInt (t : String) : Option (Option Int) :=
  if t == "~" then some none else t.toInt?.map some

def takeN {α} (p : List String → Option (α × List String)) : Nat → List String → Option (List α × List String)
  | 0, ts => some ([], ts)
  | n + 1, ts => do
    let (x, ts) ← p ts
    let (xs, ts) ← takeN p n ts
    pure (x :: xs, ts)

def ratTok : List String → Option (Rat' × List String)
  | t :: ts => (parseRat t).map (·, ts)
  | [] => none

def strTok : List String → Option (String × List String)
  | t :: ts => (hexToString t).map (·, ts)
  | [] => none

def ruleItems : Nat → Rules → List String → Option (Rules × List String)
  | 0, r, ts => some (r, ts)
  | k + 1, r, "en" :: n :: ts => do
    let (xs, ts) ← takeN ratTok (← n.toNat?) ts
    ruleItems k { r with enumNums := xs, hasEnum := true } ts
  | k + 1, r, "es" :: n :: ts => do
    let (xs, ts) ← takeN strTok (← n.toNat?) ts
    ruleItems k { r with enumStrs := xs, hasEnum := true } ts
  | k + 1, r, "fmt" :: ts => ruleItems k { r with format := true } ts
  | k + 1, r, "pat" :: ts => ruleItems k { r with pattern := true } ts
  | k + 1, r, "min" :: x :: ts => do ruleItems k { r with min := some (← parseRat x) } ts
  | k + 1, r, "max" :: x :: ts => do ruleItems k { r with max := some (← parseRat x) } ts
  | k + 1, r, "xmin" :: x :: ts => do ruleItems k { r with exMin := some (← parseRat x) } ts
  | k + 1, r, "xmax" :: x :: ts => do ruleItems k { r with exMax := some (← parseRat x) } ts
  | k + 1, r, "minlen" :: x :: ts => do ruleItems k { r with minLen := some (← x.toNat?) } ts
  | k + 1, r, "maxlen" :: x :: ts => do ruleItems k { r with maxLen := some (← x.toNat?) } ts
  | _, _, _ => none

def parseRules : List String → Option (Rules × List String)
  | "R" :: k :: ts => do ruleItems (← k.toNat?) {} ts
  | _ => none

def parseAtt : Nat → List String → Option (Att × List String)
  | 0, _ => none
  | _ + 1, "P" :: "b" :: ts => do let (r, ts) ← parseRules ts; pure (.prim .boolean r, ts)
  | _ + 1, "P" :: "s" :: ts => do let (r, ts) ← parseRules ts; pure (.prim .string r, ts)
  | _ + 1, "P" :: "y" :: ts => do let (r, ts) ← parseRules ts; pure (.prim .bytes r, ts)
  | _ + 1, "P" :: "n" :: i :: lo :: hi :: ts => do
    let (r, ts) ← parseRules ts
    pure (.prim (.number (i == "1") (← optInt lo) (← optInt hi)) r, ts)
  | f + 1, "A" :: ts => do
    let (r, ts) ← parseRules ts
    let (e, ts) ← parseAtt f ts
    pure (.arr r e, ts)
  | f + 1, "M" :: ts => do
    let (r, ts) ← parseRules ts
    let (k, ts) ← parseAtt f ts
    let (e, ts) ← parseAtt f ts
    pure (.map r k e, ts)
  | f + 1, "O" :: n :: ts => do
    let field : List String → Option ((String × Bool × Att) × List String) := fun
      | name :: req :: ts => do
        let (a, ts) ← parseAtt f ts
        pure ((← hexToString name, req == "1", a), ts)
      | _ => none
    let (fs, ts) ← takeN field (← n.toNat?) ts
    pure (.obj fs, ts)
  | _, _ => none

def parseVal : Nat → List String → Option (Val × List String)
  | 0, _ => none
  | _ + 1, "_" :: ts => some (.absent, ts)
  | _ + 1, "t" :: ts => some (.bool true, ts)
  | _ + 1, "f" :: ts => some (.bool false, ts)
  | _ + 1, "n" :: x :: ts => do pure (.num (← parseRat x), ts)
  | _ + 1, "s" :: h :: fo :: po :: ts => do pure (.str (← hexToString h) (fo == "1") (po == "1"), ts)
  | _ + 1, "y" :: n :: ts => do pure (.bytes (← n.toNat?), ts)
  | f + 1, "a" :: n :: ts => do
    let (vs, ts) ← takeN (parseVal f) (← n.toNat?) ts
    pure (.arr vs, ts)
  | f + 1, "m" :: n :: ts => do
    let pair : List String → Option ((Val × Val) × List String) := fun ts => do
      let (k, ts) ← parseVal f ts
      let (v, ts) ← parseVal f ts
      pure ((k, v), ts)
    let (kvs, ts) ← takeN pair (← n.toNat?) ts
    pure (.map kvs, ts)
  | f + 1, "o" :: n :: ts => do
    let field : List String → Option ((String × Val) × List String) := fun
      | name :: ts => do
        let (v, ts) ← parseVal f ts
        pure ((← hexToString name, v), ts)
      | _ => none
    let (fs, ts) ← takeN field (← n.toNat?) ts
    pure (.obj fs, ts)
  | _, _ => none

def insertSorted (s : String) : List String → List String
  | [] => [s]
  | x :: xs => if s < x then s :: x :: xs else if s == x then x :: xs else x :: insertSorted s xs

def render : Outcome → String
  | .called => "called"
  | .rejected first all =>
    "rejected " ++ first.name ++ " " ++ ",".intercalate (all.foldl (fun acc v => insertSorted v.name acc) [])

def handle : List String → Option String
  | "validate" :: toks => do
    let fuel := toks.length + 2
    let (a, ts) ← parseAtt fuel toks
    let (v, ts) ← parseVal fuel ts
    if !ts.isEmpty then none else
    some (render (GoaVerif.Validation.handle fuel a v))
  | _ => none

end GoaVerif.Drive.Validation
