import GoaVerif.Prelude.Hex
import GoaVerif.Model.Formats
/-! Line-protocol front end for the C17 spec recognisers: `fmt <name> <hexval> <expect>` →
`re=<0|1|-> spec=<0|1|->` (goa's own regex verdict, specification verdict; `-` = not modelled). -/
namespace GoaVerif.Drive.Formats
open GoaVerif GoaVerif.Formats

def b (x : Bool) : String := if x then "1" else "0"

def handle : List String → Option String
  | ["fmt", name, v, _] => do
    if name.endsWith "!" then
      -- a format *name* outside the table: the model's dispatch rejects it
      let n ← hexToString (name.dropEnd 1).toString
      some ("re=- spec=" ++ (if (fmtOfName n).isSome then "-" else "0"))
    else
    let s ← hexToString v
    let cs := s.toList
    match name with
    | "hostname" => some ("re=" ++ b (hostnameRe cs) ++ " spec=" ++ b (isHostname cs))
    | "ipv4" => some ("re=" ++ b (ipv4Re cs) ++ " spec=" ++ b (isIPv4 cs))
    | "ipv6" => some ("re=" ++ b (ipv4Re cs) ++ " spec=" ++ (if isIPv4 cs then "0" else "-"))
    | "date" => some ("re=- spec=" ++ b (isDate cs))
    | "uuid" => some ("re=- spec=" ++ b (isUUID cs))
    | "mac" => some ("re=- spec=" ++ b (isMAC cs))
    | "cidr" => some ("re=- spec=" ++ (if cs.contains ':' then "-" else b (isCIDRv4 cs)))
    | _ => some "re=- spec=-"
  | ["ip3", v] => do
    let s ← hexToString v
    let cs := s.toList
    -- what the specification can say: a dotted quad is ipv4+ip and not ipv6; otherwise not ipv4
    some (if isIPv4 cs then "ipv4=1 ipv6=0 ip=1" else "ipv4=0 ipv6=? ip=?")
  | ["pat", _, _] => some "v=? ref=?"
  | _ => none

end GoaVerif.Drive.Formats
