import GoaVerif.Prelude.Hex
import GoaVerif.Model.Middleware
import GoaVerif.Generated.TrSampler
/-! Line-protocol front end for the C19 model. -/
namespace GoaVerif.Drive.Middleware
open GoaVerif GoaVerif.Middleware

def isAlpha (c : Char) : Bool := ('a' ≤ c && c ≤ 'z') || ('A' ≤ c && c ≤ 'Z')

/-- `textproto.CanonicalMIMEHeaderKey` for keys made of letters, digits and `-` -/
def canonAux : Bool → List Char → List Char
  | _, [] => []
  | up, c :: cs =>
    let c' := if up then c.toUpper else c.toLower
    c' :: canonAux (c == '-') cs

def canon (s : String) : String := String.ofList (canonAux true s.toList)

def parseOpts : Nat → List String → Option (List RIDOpt × List String)
  | 0, rest => some ([], rest)
  | n + 1, t :: rest => do
    let o ← match t.toList with
      | ['U', '0'] => some (RIDOpt.useReqID false)
      | ['U', '1'] => some (RIDOpt.useReqID true)
      | 'H' :: h => (hexToString (String.ofList h)).map RIDOpt.header
      | 'L' :: l => (String.ofList l).toInt?.map RIDOpt.limit
      | _ => none
    let (os, rest) ← parseOpts n rest
    pure (o :: os, rest)
  | _, _ => none

def parseKV : Nat → List String → Option (List (String × Bytes))
  | 0, [] => some []
  | n + 1, k :: v :: rest => do
    let k ← hexToString k
    let v ← hexToBytes v
    let r ← parseKV n rest
    pure ((k, v) :: r)
  | _, _ => none

def optBytes (t : String) : Option (Option Bytes) :=
  if t == "~" then some none else (hexToBytes t).map some

def showSpan : Option Span → String
  | none => "none"
  | some s => "trace=" ++ encBytes s.trace ++ " span=" ++ encBytes s.span ++ " parent=" ++
      (match s.parent with | none => "~" | some p => encBytes p)

def showSpanC : Option Span → String
  | none => "none"
  | some s => encBytes s.trace ++ "/" ++ encBytes s.span ++ "/" ++
      (match s.parent with | none => "~" | some p => encBytes p)

def parseWOps : List String → Option (List WOp)
  | [] => some []
  | t :: rest => do
    let op ← match t.toList with
      | 'h' :: c => (String.ofList c).toInt?.map WOp.writeHeader
      | 'w' :: n => (String.ofList n).toNat?.map fun k => WOp.write k k
      | 's' :: r =>   -- s<offered>:<accepted>
        match (String.ofList r).splitOn ":" with
        | [a, b] => do
          let n ← a.toNat?
          let acc ← b.toNat?
          some (WOp.write n (min n acc))
        | _ => none
      | _ => none
    let r ← parseWOps rest
    pure (op :: r)

def handle : List String → Option String
  | "rid" :: variant :: "O" :: n :: rest => do
    let k ← n.toNat?
    let (opts, rest) ← parseOpts k rest
    match rest with
    | c :: "K" :: m :: kvs =>
      let ctx ← optBytes c
      let hs ← parseKV (← m.toNat?) kvs
      let o := newOpts opts
      let fresh : Bytes := [70]
      let hdr : Bytes :=
        if variant == "http" then
          if o.header == "" then [] else
          match hs.find? (fun kv => canon kv.1 == canon o.header) with
          | some (_, v) => v
          | none => []
        else
          match hs.find? (fun kv => kv.1.toLower == "x-request-id") with
          | some (_, v) => v
          | none => []
      let id := requestID o hdr ctx fresh
      some (if id == fresh then "id=FRESH" else "id=" ++ encBytes id)
    | _ => none
  | ["trace", _variant, t, p, pct, disc] => do
    let hT ← hexToBytes t
    let hP ← hexToBytes p
    let pc ← pct.toInt?
    let sampled := Generated.TrSampler.fixedSample (fun _ => 50) pc
    some (showSpan (trace hT hP (disc == "1") sampled [84] [83]))
  | ["chain", _variant, n, t, p, bits] => do
    let k ← n.toNat?
    let hT ← hexToBytes t
    let hP ← hexToBytes p
    let bs := bits.toList
    let sampled := fun i => bs.getD i '0' == '1'
    let ids := fun (i : Nat) => (([116] : Bytes) ++ (toString i).toUTF8.toList, ([115] : Bytes) ++ (toString i).toUTF8.toList)
    some (";".intercalate ((chain hT hP sampled ids 0 k).map showSpanC))
  | "capture" :: ops => do
    let os ← parseWOps ops
    let c := os.foldl Capture.step {}
    let w := os.foldl Wire.step {}
    some ("cap=" ++ toString c.status ++ "/" ++ toString c.length ++ " wire=" ++ toString (w.status.getD 0) ++ "/" ++ toString w.bytes)
  | _ => none

end GoaVerif.Drive.Middleware
