import GoaVerif.Prelude.Hex
import GoaVerif.Model.Mux
import GoaVerif.Model.FullPaths
/-! Line-protocol front end for the C16 model.

`esc <hex>` / `unesc <hex>` / `setpath <hex>`: the byte-level functions.
`mux R <k> (<method> <patternhex> <id>)*k REQ <method> <rawpathhex>`: one request. -/
namespace GoaVerif.Drive.Mux
open GoaVerif GoaVerif.Mux

def parseSeg (s : Bytes) : Seg :=
  match s with
  | 123 :: 42 :: rest => .catchAll ((String.fromUTF8? (ByteArray.mk (rest.dropLast).toArray)).getD "?")
  | 123 :: rest => .param ((String.fromUTF8? (ByteArray.mk (rest.dropLast).toArray)).getD "?")
  | _ => .lit s

def parsePattern (p : Bytes) : Pattern :=
  match p with
  | 47 :: rest => (splitSlash rest).map parseSeg
  | _ => (splitSlash p).map parseSeg

def parseRoutes : Nat → List String → Option (List Route × List String)
  | 0, rest => some ([], rest)
  | n + 1, m :: p :: i :: rest => do
    let pat ← hexToBytes p
    let id ← i.toNat?
    let (rs, rest) ← parseRoutes n rest
    pure (⟨m, parsePattern pat, id⟩ :: rs, rest)
  | _, _ => none

def insertSorted (x : String) : List String → List String
  | [] => [x]
  | y :: ys => if x ≤ y then x :: y :: ys else y :: insertSorted x ys

def showVars (vs : List (String × Bytes)) : String :=
  -- a Go map: later bindings of the same name overwrite earlier ones; printed sorted
  let dedup := vs.foldl (fun acc (kv : String × Bytes) => (acc.filter (·.1 != kv.1)) ++ [kv]) []
  ",".intercalate ((dedup.map fun kv => encString kv.1 ++ "=" ++ encBytes kv.2).foldr insertSorted [])

def candidates (routes : List Route) (method : String) (path : Bytes) : Nat :=
  match path with
  | 47 :: rest =>
    (routes.filter fun r => r.method == method && (matchSegs r.pattern (splitSlash rest)).isSome).length
  | _ => 0

def anyMethod (routes : List Route) (path : Bytes) : Bool :=
  match path with
  | 47 :: rest => routes.any fun r => (matchSegs r.pattern (splitSlash rest)).isSome
  | _ => false

def handle : List String → Option String
  -- `fullpaths <hex api base> <hex route> <hex service base>*` → the patterns the route is mounted under
  | "fullpaths" :: a :: r :: bs => do
    let api ← hexToString a
    let route ← hexToString r
    let bases ← bs.mapM hexToString
    some (" ".intercalate ("paths" :: (GoaVerif.FullPaths.routePaths route (GoaVerif.FullPaths.servicePaths api bases)).map encString))
  | ["esc", h] => do
    let b ← hexToBytes h
    some (encBytes (pathEscape b))
  | ["unesc", h] => do
    let b ← hexToBytes h
    some (match unescape b with | some r => "ok " ++ encBytes r | none => "err")
  | ["setpath", h] => do
    let b ← hexToBytes h
    some (match setPath b with
      | some (p, r) => "path=" ++ encBytes p ++ " raw=" ++ encBytes r
      | none => "err")
  | "mux" :: "R" :: k :: rest => do
    let n ← k.toNat?
    let (routes, rest) ← parseRoutes n rest
    match rest with
    | "REQ" :: method :: ph :: _ =>
      let p ← hexToBytes ph
      match routePath p with
      | none => some "status=400"
      | some (rp, escaped) =>
        let c := candidates routes method rp
        if c > 1 then some "ambiguous"
        else match dispatch routes method rp with
        | none => some (if anyMethod routes rp then "status=405" else "status=404 body=ok")
        | some (r, caps) =>
          -- the catch-all is published under the name found in the wildcards table
          let caps := caps.map fun (kv : String × Bytes) =>
            match r.pattern.getLast? with
            | some (.catchAll n) =>
              if kv.1 == n then ((wildcardName routes r.method (chiText r.pattern)).getD "", kv.2) else kv
            | _ => kv
          let vs := caps.map fun (kv : String × Bytes) => (kv.1, if escaped then unescapeOrRaw kv.2 else kv.2)
          some ("route=" ++ toString r.id ++ " vars=[" ++ showVars vs ++ "] pattern=" ++ encString (resolvePattern routes r))
    | _ => none
  | _ => none

end GoaVerif.Drive.Mux
