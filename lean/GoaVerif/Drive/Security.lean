import GoaVerif.Prelude.Hex
import GoaVerif.Model.Security
/-!
`sec <nosec> M <k> (<n> <scheme>*)* S <k> (…)* A <k> (…)* ACC <k> <scheme>*` →
`calls=<scheme,…|~> refused=<scheme|~>` (scheme names hex) ·
`cred <inHeader> <hex>` → the credential the callback receives (hex) ·
`credf <k> <field>* <field> <hex>` → the value of that payload field after the server decoder ran its
stripping blocks for the header schemes' credential fields (`decodeEndpoint`).
-/
namespace GoaVerif.Drive.Security
open GoaVerif GoaVerif.Security

def takeNames : Nat → List String → Option (List String × List String)
  | 0, ts => some ([], ts)
  | n + 1, t :: ts => do
    let s ← hexToString t
    let (r, ts) ← takeNames n ts
    pure (s :: r, ts)
  | _, _ => none

def takeReqs : Nat → List String → Option (List Req × List String)
  | 0, ts => some ([], ts)
  | k + 1, n :: ts => do
    let (r, ts) ← takeNames (← n.toNat?) ts
    let (rs, ts) ← takeReqs k ts
    pure (r :: rs, ts)
  | _, _ => none

def reqSection (tag : String) : List String → Option (List Req × List String)
  | t :: k :: ts => if t == tag then do takeReqs (← k.toNat?) ts else none
  | _ => none

def handle : List String → Option String
  | "sec" :: nosec :: ts => do
    let (m, ts) ← reqSection "M" ts
    let (s, ts) ← reqSection "S" ts
    let (a, ts) ← reqSection "A" ts
    let ok ← match ts with
      | "ACC" :: k :: rest => do
        let (names, rest) ← takeNames (← k.toNat?) rest
        if rest.isEmpty then pure names else none
      | _ => none
    let o := endpoint (fun x => ok.contains x) (effective (nosec == "1") m s a)
    let calls := if o.calls.isEmpty then "~" else ",".intercalate (o.calls.map encString)
    some s!"calls={calls} refused={match o.refusedBy with | some f => encString f | none => "~"}"
  | ["cred", h, v] => do some (encString (credential (h == "1") (← hexToString v)))
  | "credf" :: k :: ts => do
    -- the credential fields of the endpoint's header schemes (requirement order, with repeats),
    -- then one field of the decoded payload and the value sent
    let (fs, rest) ← takeNames (← k.toNat?) ts
    match rest with
    | [f, v] => do
      let f ← hexToString f
      match decodeEndpoint fs [(f, ← hexToString v)] with
      | [(_, out)] => some (encString out)
      | _ => none
    | _ => none
  | _ => none

end GoaVerif.Drive.Security
