import GoaVerif.Prelude.Hex
/-! Shared read–dispatch–print loop of the line-protocol drivers. -/
namespace GoaVerif.Drive

partial def loop (dispatch : List String → Option String) (h out : IO.FS.Stream) : IO Unit := do
  let line ← h.getLine
  if line.isEmpty then return ()
  let toks := words ((line.replace "\n" " ").replace "\r" " ")
  if toks.isEmpty then loop dispatch h out else
  out.putStrLn ((dispatch toks).getD "bad-op")
  loop dispatch h out

def runDriver (dispatch : List String → Option String) : IO Unit := do
  let out ← IO.getStdout
  loop dispatch (← IO.getStdin) out
  out.flush

end GoaVerif.Drive
