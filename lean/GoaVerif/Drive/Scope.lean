import GoaVerif.Prelude.Hex
import GoaVerif.Model.Scope
/-! `scope (U <name> <sfx|~> | H <hash> <name> <sfx|~> | N <name>)*` → the returned names. -/
namespace GoaVerif.Drive.Scope
open GoaVerif GoaVerif.Scope

def optStr (t : String) : Option (Option String) :=
  if t == "~" then some none else (hexToString t).map some

def go (s : Scope) (acc : List String) : Nat → List String → Option (List String)
  | _, [] => some acc.reverse
  | 0, _ => none
  | fuel + 1, "U" :: n :: sfx :: rest => do
    let r := unique s (← hexToString n) (← optStr sfx)
    go r.1 (encString r.2 :: acc) fuel rest
  | fuel + 1, "H" :: h :: n :: sfx :: rest => do
    let r := hashedUnique s (← hexToString h) (← hexToString n) (← optStr sfx)
    go r.1 (encString r.2 :: acc) fuel rest
  | fuel + 1, "N" :: n :: rest => do
    go s (encString (nameOf s (← hexToString n)) :: acc) fuel rest
  | _, _ => none

def handle : List String → Option String
  | "scope" :: toks => (go {} [] (toks.length + 1) toks).map (" ".intercalate ·)
  | _ => none

end GoaVerif.Drive.Scope
