import GoaVerif.Prelude.Hex
import GoaVerif.Model.GrpcHandler
/-! `unary <dec> <ep> <enc> H <n> (<key> <m> <hex>*)* T <n> (...)*` → what the invoker's caller sees -/
namespace GoaVerif.Drive.Grpc
open GoaVerif GoaVerif.GrpcHandler GoaVerif.Generated.TrGrpcerr

def stepOf (s : String) : Option Step :=
  if s == "ok" then some .ok
  else if s == "plain" then some .plain
  else match s.toList with
    | ['s', 'v', 'c', a, b, c] =>
      some (.svc { Name := "boom", ID := "id", Message := "", Timeout := a == '1', Temporary := b == '1', Fault := c == '1' })
    | _ => none

partial def parseMD (n : Nat) (toks : List String) (acc : MD) : Option (MD × List String) :=
  match n with
  | 0 => some (acc.reverse, toks)
  | n + 1 =>
    match toks with
    | k :: m :: rest => do
      let m ← m.toNat?
      if rest.length < m then none
      let vs ← (rest.take m).mapM hexToString
      parseMD n (rest.drop m) ((k, vs) :: acc)
    | _ => none

/-- grpc metadata is a map: canonical order by key -/
def insertKey (kv : String × List String) : MD → MD
  | [] => [kv]
  | x :: xs => if kv.1 < x.1 then kv :: x :: xs else x :: insertKey kv xs

def canon (md : MD) : MD := md.foldr insertKey []

def showMD (md : MD) : String :=
  if md.isEmpty then "~" else
  ";".intercalate ((canon md).map fun (k, vs) => k ++ ":" ++ ",".intercalate (vs.map encString))

def handle : List String → Option String
  | ["stream", d, e] => do
    let (code, ran) := stream (← stepOf d) (← stepOf e)
    some s!"code={code} ran={boolTok ran}"
  | "unary" :: d :: e :: c :: "H" :: n :: rest => do
    let d ← stepOf d; let e ← stepOf e; let c ← stepOf c
    let (h, rest) ← parseMD (← n.toNat?) rest []
    match rest with
    | "T" :: n :: rest =>
      let (t, _) ← parseMD (← n.toNat?) rest []
      let s := unary ⟨d, e, c, h, t⟩
      some s!"code={s.code} ran={boolTok s.ran} result={boolTok s.result} hdr={showMD s.hdr} trlr={showMD s.trlr}"
    | _ => none
  | _ => none

end GoaVerif.Drive.Grpc
