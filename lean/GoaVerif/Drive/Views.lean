import GoaVerif.Prelude.Hex
import GoaVerif.Model.Views
/-!
`projt <env> Q <T> <view>` → projected type tree · `projv <env> Q <T> <view> <val>` → projected value ·
`known <env> Q <T> <view>` → 0|1.

env: `E <nT> (T <name> <nA> (<attr> <target|~> <0|1 coll> <declview|~>)* <nV> (<view> <nF> (<attr> <view|~>)*)*)*`
val: `_` | `p` | `o <n> (<name> <val>)*` | `a <n> <val>*`    (names hex-encoded)
tree: `P` | `N <name> <n> (<key> <tree>)*` (keys sorted) | `C <tree>` | `R <name>` | `X`
-/
namespace GoaVerif.Drive.Views
open GoaVerif GoaVerif.Views

def optHex (t : String) : Option (Option String) :=
  if t == "~" then some none else (hexToString t).map some

def takeN {α} (p : List String → Option (α × List String)) : Nat → List String → Option (List α × List String)
  | 0, ts => some ([], ts)
  | n + 1, ts => do
    let (x, ts) ← p ts
    let (xs, ts) ← takeN p n ts
    pure (x :: xs, ts)

def pAttr : List String → Option (AttDecl × List String)
  | n :: tg :: c :: dv :: ts => do
    pure (⟨← hexToString n, ← optHex tg, c == "1", ← optHex dv⟩, ts)
  | _ => none

def pVF : List String → Option (ViewField × List String)
  | n :: v :: ts => do pure (⟨← hexToString n, ← optHex v⟩, ts)
  | _ => none

def pView : List String → Option ((String × List ViewField) × List String)
  | n :: k :: ts => do
    let (fs, ts) ← takeN pVF (← k.toNat?) ts
    pure ((← hexToString n, fs), ts)
  | _ => none

def pType : List String → Option (RType × List String)
  | "T" :: n :: k :: ts => do
    let (as, ts) ← takeN pAttr (← k.toNat?) ts
    match ts with
    | kv :: ts =>
      let (vs, ts) ← takeN pView (← kv.toNat?) ts
      pure (⟨← hexToString n, as, vs⟩, ts)
    | [] => none
  | _ => none

def pEnv : List String → Option (Env × List String)
  | "E" :: k :: ts => do takeN pType (← k.toNat?) ts
  | _ => none

partial def pVal : List String → Option (Val × List String)
  | "_" :: ts => some (.null, ts)
  | "p" :: ts => some (.prim, ts)
  | "o" :: k :: ts => do
    let rec fields : Nat → List String → Option (List (String × Val) × List String)
      | 0, ts => some ([], ts)
      | n + 1, nm :: ts => do
        let (v, ts) ← pVal ts
        let (r, ts) ← fields n ts
        pure ((← hexToString nm, v) :: r, ts)
      | _, _ => none
    let (fs, ts) ← fields (← k.toNat?) ts
    pure (.obj fs, ts)
  | "a" :: k :: ts => do
    let rec items : Nat → List String → Option (List Val × List String)
      | 0, ts => some ([], ts)
      | n + 1, ts => do
        let (v, ts) ← pVal ts
        let (r, ts) ← items n ts
        pure (v :: r, ts)
    let (xs, ts) ← items (← k.toNat?) ts
    pure (.arr xs, ts)
  | _ => none

partial def showVal : Val → String
  | .null => "_"
  | .prim => "p"
  | .obj fs => s!"o {fs.length}" ++ String.join (fs.map fun (k, v) => s!" {encString k} {showVal v}")
  | .arr xs => s!"a {xs.length}" ++ String.join (xs.map fun v => s!" {showVal v}")

def insertByKey {α} (e : String × α) : List (String × α) → List (String × α)
  | [] => [e]
  | x :: xs => if e.1 ≤ x.1 then e :: x :: xs else x :: insertByKey e xs

partial def showTree : PTree → String
  | .prim => "P"
  | .err => "X"
  | .ref n => s!"R {encString n}"
  | .coll e => s!"C {showTree e}"
  | .node n as =>
    let sorted := as.foldl (fun acc e => insertByKey e acc) []
    s!"N {encString n} {as.length}" ++ String.join (sorted.map fun (k, t) => s!" {encString k} {showTree t}")

def handle : List String → Option String
  | op :: rest => do
    let (env, ts) ← pEnv rest
    match op, ts with
    | "projt", ["Q", T, v] => some (showTree (projT env 12 [] (← hexToString T) (← hexToString v)))
    | "known", ["Q", T, v] => some (boolTok (viewKnown env (← hexToString T) (← hexToString v)))
    | "projv", "Q" :: T :: v :: vs => do
      let (x, _) ← pVal vs
      some (showVal (projV env 40 (← hexToString T) (← hexToString v) x))
    | _, _ => none
  | _ => none

end GoaVerif.Drive.Views
