/-
C16 / C07 — the patterns an endpoint is mounted under: expr/http_service.go `fullPaths` (API base path × the service's base
paths) and expr/http_endpoint.go `RouteExpr.fullPaths` (× the route's own path), for services without a parent and paths
made of plain segments (no dots, no doubled slashes inside; `path.Join` + `httppath.Clean` then come down to dropping empty
segments). As written, including the trailing-slash rules.
-/
namespace GoaVerif.FullPaths

def segs (p : String) : List String := (p.splitOn "/").filter (· ≠ "")

/-- `httppath.Clean(path.Join(a, b))` on such paths -/
def joinClean (a b : String) : String := "/" ++ "/".intercalate (segs a ++ segs b)

/-- `HTTPServiceExpr.fullPaths`: one pattern per base path of the service -/
def servicePaths (api : String) (bases : List String) : List String :=
  if bases.isEmpty then [if (segs api).isEmpty then "" else joinClean api ""]
  else bases.map fun p => let v := joinClean api p; if p.endsWith "/" then v ++ "/" else v

/-- the pattern of a route under ONE base path -/
def routePath (route base : String) : String :=
  let v := joinClean base route
  if v == "/" then v
  else if route == "/" && base.endsWith "/" then v ++ "/"
  else if route != "/" && route.endsWith "/" then v ++ "/"
  else v

/-- `RouteExpr.fullPaths` (relative routes) -/
def routePaths (route : String) (bases : List String) : List String := bases.map (routePath route)

end GoaVerif.FullPaths
