/-
C20 — threads, read/write mutexes and shared variables as an interleaving transition system.

A thread is straight-line code over `lock / rlock / unlock / runlock / read / write`; a scheduler
picks which thread performs its next instruction; an instruction that cannot proceed (a lock that
is taken) leaves the state unchanged. A *race state* is a state in which two different threads
are both about to access the same variable and at least one of them is about to write it — the
operational definition of a data race.

`wl` is the static lock discipline: every write of a variable happens while holding the
variable's mutex exclusively, every read while holding it shared or exclusively — or the
variable is *frozen* (never written by these threads: state that is only written while a server
is being assembled, before requests are served).
-/
namespace GoaVerif.Conc

inductive Instr where
  | lock (m : Nat)
  | rlock (m : Nat)
  | unlock (m : Nat)
  | runlock (m : Nat)
  | read (x : Nat)
  | write (x : Nat)
deriving Repr, DecidableEq

structure Thread where
  /-- mutexes this thread holds exclusively -/
  E : List Nat
  /-- mutexes this thread holds shared (with multiplicity) -/
  S : List Nat
  code : List Instr
deriving Repr

structure Mutex where
  writer : Option Nat
  readers : List Nat

structure State where
  mx : Nat → Mutex
  threads : List Thread

def setMx (mx : Nat → Mutex) (m : Nat) (v : Mutex) : Nat → Mutex := fun k => if k = m then v else mx k

/-- thread `i` performs its next instruction, if it can -/
def stepThread (i : Nat) (mx : Nat → Mutex) (t : Thread) : (Nat → Mutex) × Thread :=
  match t.code with
  | [] => (mx, t)
  | .lock m :: rest =>
    if (mx m).writer = none ∧ (mx m).readers = [] then
      (setMx mx m ⟨some i, []⟩, { E := m :: t.E, S := t.S, code := rest })
    else (mx, t)
  | .rlock m :: rest =>
    if (mx m).writer = none then
      (setMx mx m ⟨none, i :: (mx m).readers⟩, { E := t.E, S := m :: t.S, code := rest })
    else (mx, t)
  | .unlock m :: rest =>
    if m ∈ t.E then (setMx mx m ⟨none, (mx m).readers⟩, { E := t.E.erase m, S := t.S, code := rest })
    else (mx, t)   -- unlocking a mutex that is not held: Go panics; the model stops the thread
  | .runlock m :: rest =>
    if m ∈ t.S then
      (setMx mx m ⟨(mx m).writer, (mx m).readers.erase i⟩, { E := t.E, S := t.S.erase m, code := rest })
    else (mx, t)
  | .read _ :: rest => (mx, { t with code := rest })
  | .write _ :: rest => (mx, { t with code := rest })

def step (s : State) (i : Nat) : State :=
  match s.threads[i]? with
  | none => s
  | some t =>
    let r := stepThread i s.mx t
    { mx := r.1, threads := s.threads.set i r.2 }

def run (s : State) (sched : List Nat) : State := sched.foldl step s

/-- the variable an instruction is about to touch, and whether it writes -/
def access : Instr → Option (Nat × Bool)
  | .read x => some (x, false)
  | .write x => some (x, true)
  | _ => none

def nextAccess (t : Thread) : Option (Nat × Bool) :=
  match t.code with
  | [] => none
  | i :: _ => access i

/-- two different threads are about to touch the same variable, one of them writing -/
def Race (s : State) : Prop :=
  ∃ (i j : Nat) (ti tj : Thread) (x : Nat) (wi wj : Bool), i ≠ j ∧ s.threads[i]? = some ti ∧ s.threads[j]? = some tj ∧
    nextAccess ti = some (x, wi) ∧ nextAccess tj = some (x, wj) ∧ (wi = true ∨ wj = true)

/-- static lock discipline of one thread from a given lock set on; `g x` is the mutex guarding
    variable `x`, `frozen x` says no thread writes `x` -/
def wl (g : Nat → Nat) (frozen : Nat → Bool) : List Nat → List Nat → List Instr → Bool
  | _, _, [] => true
  | E, S, .lock m :: r => wl g frozen (m :: E) S r
  | E, S, .rlock m :: r => wl g frozen E (m :: S) r
  | E, S, .unlock m :: r => wl g frozen (E.erase m) S r
  | E, S, .runlock m :: r => wl g frozen E (S.erase m) r
  | E, S, .read x :: r => (frozen x || E.contains (g x) || S.contains (g x)) && wl g frozen E S r
  | E, S, .write x :: r => (!frozen x && E.contains (g x)) && wl g frozen E S r

def freeMx : Nat → Mutex := fun _ => ⟨none, []⟩

/-- all mutexes free, every thread at the start of its code -/
def initState (codes : List (List Instr)) : State :=
  { mx := freeMx, threads := codes.map fun c => { E := [], S := [], code := c } }

/-! ### accesses as they appear in an extracted table -/

inductive LockKind where
  | none | shared | exclusive
deriving Repr, DecidableEq

structure Acc where
  x : Nat
  write : Bool
  lock : LockKind
deriving Repr, DecidableEq

/-- the code of one access: take the variable's own mutex as the table says, touch, release -/
def frag (a : Acc) : List Instr :=
  let op := if a.write then Instr.write a.x else Instr.read a.x
  match a.lock with
  | .none => [op]
  | .shared => [.rlock a.x, op, .runlock a.x]
  | .exclusive => [.lock a.x, op, .unlock a.x]

/-- the table's policy for one access -/
def okAcc (frozen : Nat → Bool) (a : Acc) : Bool :=
  if a.write then !frozen a.x && a.lock == .exclusive else frozen a.x || a.lock != .none

end GoaVerif.Conc
