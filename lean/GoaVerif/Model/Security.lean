/-
C06 — the security gate of a generated endpoint (codegen/service/templates/
service_endpoint_method.go.tpl:14-126), the inheritance of requirements
(expr/method.go Finalize) and the credential the server hands to a callback
(http/codegen/templates/request_decoder.go.tpl:60-83).
-/
namespace GoaVerif.Security

/-- one requirement: every scheme in it must accept -/
abbrev Req := List String

/-- `MethodExpr.Finalize`: NoSecurity empties; otherwise the method's own requirements, else the
    service's, else the API's -/
def effective (noSecurity : Bool) (method service api : List Req) : List Req :=
  if noSecurity then []
  else if !method.isEmpty then method
  else if !service.isEmpty then service
  else api

/-- the inner chain of one requirement: callbacks run in order until one refuses.
    Returns the schemes whose callback ran and the refusing scheme, if any. -/
def evalReq (accept : String → Bool) : Req → List String × Option String
  | [] => ([], none)
  | s :: rest =>
    if accept s then
      let r := evalReq accept rest
      (s :: r.1, r.2)
    else ([s], some s)

/-- the outer chain: the next requirement is tried only while `err != nil` -/
def evalAll (accept : String → Bool) : List Req → List String × Option String
  | [] => ([], none)
  | [r] => evalReq accept r
  | r :: rs =>
    let a := evalReq accept r
    match a.2 with
    | none => a
    | some _ =>
      let b := evalAll accept rs
      (a.1 ++ b.1, b.2)

/-- what the endpoint does: the callbacks it runs, and either the refusing scheme whose error the
    caller receives, or `none`: the service method runs -/
structure Outcome where
  calls : List String
  refusedBy : Option String
deriving Repr, DecidableEq

def endpoint (accept : String → Bool) (reqs : List Req) : Outcome :=
  let r := evalAll accept reqs
  ⟨r.1, r.2⟩

/-- `strings.SplitN(cred, " ", 2)[1]` when the credential contains a space -/
def afterFirstSpace : List Char → List Char
  | [] => []
  | c :: cs => if c == ' ' then cs else afterFirstSpace cs

/-- the credential string a callback receives for a credential sent in a header / elsewhere -/
def credential (inHeader : Bool) (sent : String) : String :=
  if inHeader && sent.toList.contains ' ' then String.ofList (afterFirstSpace sent.toList) else sent

/-! ### the credential fields of a decoded payload (request_decoder.go.tpl `range .HeaderSchemes`,
http/codegen/service_data.go `hsch.AppendCred`, grpc/codegen `metSch.AppendCred`) -/

/-- the credential fields of a decoded payload, by Go field name -/
abbrev Fields := List (String × String)

/-- one stripping block: `payload.F = SplitN(payload.F, " ", 2)[1]` when it contains a space -/
def stripField (f : String) : Fields → Fields
  | [] => []
  | (g, v) :: rest => (g, if g == f then credential true v else v) :: stripField f rest

/-- the decoder emits one stripping block per entry of the list it is given -/
def decodeCreds (blocks : List String) (p : Fields) : Fields :=
  blocks.foldl (fun p f => stripField f p) p

/-- `SchemesData.AppendCred`: a scheme joins the list unless its credential field is already there -/
def appendCred (l : List String) (f : String) : List String := if l.contains f then l else l ++ [f]

/-- the list the decoder is given: the credential fields of the endpoint's header schemes, in
    requirement order, added with `AppendCred` -/
def headerSchemes (schemeFields : List String) : List String := schemeFields.foldl appendCred []

/-- the server decoder, end to end, on the credential fields -/
def decodeEndpoint (schemeFields : List String) (p : Fields) : Fields :=
  decodeCreds (headerSchemes schemeFields) p

end GoaVerif.Security
