import GoaVerif.Generated.FactsHasher
/-
C13 — model of the structural hash `expr.Hash` (expr/hasher.go, after `fix:` c1e42f3 and
fbb1e69) over type graphs given as indexed nodes and attributes (cycles through user
types). The separator constants come from tie T2 (`Generated/FactsHasher.lean`,
regenerated from /repo on every run). Object identity (the key of the `seen` table) is the
node index. Recursion is bounded by `fuel`.
-/
namespace GoaVerif.TypeHash
open GoaVerif.Generated.FactsHasher

inductive Node where
  | prim (name : String)
  | arr (elem : Nat)
  | map (key elem : Nat)
  | obj (fields : List (String × Nat))
  | union (name : String) (vals : List (String × Nat))
  | user (name : String) (att : Nat) (isResult : Bool)
deriving Repr

structure Attr where
  ty : Nat
  /-- the Go map `Meta`, in the order an iteration happens to visit it -/
  md : List (String × List String)
deriving Repr

structure Graph where
  nodes : List Node
  atts : List Attr
deriving Repr

structure Flags where
  ignoreFields : Bool
  ignoreNames : Bool
  ignoreTags : Bool
deriving Repr, DecidableEq

abbrev Seen := List (Nat × String)

def lookupSeen (s : Seen) (n : Nat) : Option String :=
  match s.find? (fun e => e.1 == n) with
  | some e => some e.2
  | none => none

def setSeen (s : Seen) (n : Nat) (v : String) : Seen := (n, v) :: s.filter (fun e => e.1 != n)

def nameLE (a b : String × Nat) : Bool := decide (a.1 ≤ b.1)
def keyLE (a b : String × List String) : Bool := decide (a.1 ≤ b.1)

/-- insertion sort (structurally recursive, so that the kernel can evaluate the model);
    `sort.Slice` is some other algorithm, which is immaterial when the keys are distinct
    (`isort_perm_eq`: every sorted permutation of such a list is the same list) -/
def insertBy {α : Type} (le : α → α → Bool) (x : α) : List α → List α
  | [] => [x]
  | y :: ys => if le x y then x :: y :: ys else y :: insertBy le x ys

def isort {α : Type} (le : α → α → Bool) (l : List α) : List α := l.foldr (insertBy le) []

/-- `sorted(o)` / the sort in `hashUnion` -/
def sortByName (l : List (String × Nat)) : List (String × Nat) := isort nameLE l

/-- `fmt.Sprintf("%s", []string)` -/
def fmtVals (v : List String) : String := "[" ++ " ".intercalate v ++ "]"

/-- `hashFieldTags` -/
def fieldTags (md : List (String × List String)) : String :=
  let tags := isort keyLE (md.filter fun e => fieldTagKeyPrefix.toList.isPrefixOf e.1.toList)
  tags.foldl (fun h e => h ++ tagPrefix ++ e.1 ++ fmtVals e.2) ""

/-- `UserTypeExpr.Name` -/
def effName (name : String) (md : List (String × List String)) : String :=
  match md.find? (fun e => e.1 == "struct:type:name") with
  | some (_, v :: _) => v
  | _ => name

def Graph.attTy (g : Graph) (a : Nat) : Nat := match g.atts[a]? with | some x => x.ty | none => 0
def Graph.attMeta (g : Graph) (a : Nat) : List (String × List String) :=
  match g.atts[a]? with | some x => x.md | none => []

/-- `hash` with the `seen` table threaded through -/
def hash (g : Graph) (f : Flags) : Nat → Nat → Seen → String × Seen
  | 0, _, seen => ("", seen)
  | fuel + 1, n, seen =>
    match g.nodes[n]? with
    | none => ("", seen)
    | some (.prim name) => (name, seen)
    | some (.arr e) =>
      let r := hash g f fuel (g.attTy e) seen
      (arrayPrefix ++ r.1, r.2)
    | some (.map k e) =>
      let rk := hash g f fuel (g.attTy k) seen
      let re := hash g f fuel (g.attTy e) rk.2
      (mapPrefix ++ rk.1 ++ mapElemPrefix ++ re.1, re.2)
    | some (.union name vals) =>
      (sortByName vals).foldl (fun (acc : String × Seen) nv =>
        let r := hash g f fuel (g.attTy nv.2) acc.2
        (acc.1 ++ unionAttributePrefix ++ nv.1 ++ unionAttributeTypePrefix ++ r.1, r.2))
        (unionTypePrefix ++ name, seen)
    | some (.user name a isResult) =>
      -- `ResultTypeExpr.Name` ignores the struct:type:name override
      let nm := if isResult then name else effName name (g.attMeta a)
      let h := userTypePrefix ++ (if !f.ignoreNames || f.ignoreFields then nm else "")
      if f.ignoreFields then (h, seen) else
      let h := if !f.ignoreTags then h ++ fieldTags (g.attMeta a) else h
      let r := hash g f fuel (g.attTy a) seen
      (h ++ userTypeHashPrefix ++ r.1, r.2)
    | some (.obj fields) =>
      match lookupSeen seen n with
      | some s => (s, seen)
      | none =>
        (sortByName fields).foldl (fun (acc : String × Seen) nv =>
          -- while the attribute type is hashed, `seen[o]` holds the partial string built so far
          let r := hash g f fuel (g.attTy nv.2) acc.2
          let ph := acc.1 ++ attributePrefix ++ nv.1 ++ attributeTypePrefix ++ r.1 ++
            (if !f.ignoreTags then fieldTags (g.attMeta nv.2) else "")
          (ph, setSeen r.2 n ph))
          (objectPrefix, setSeen seen n objectPrefix)

/-- `expr.Hash` -/
def hashOf (g : Graph) (f : Flags) (fuel root : Nat) : String := (hash g f fuel root []).1

/-- `expr.Equal` -/
def equal (g₁ g₂ : Graph) (fuel r₁ r₂ : Nat) : Bool :=
  hashOf g₁ ⟨false, true, true⟩ fuel r₁ == hashOf g₂ ⟨false, true, true⟩ fuel r₂

end GoaVerif.TypeHash
