/-
C08 — result types, views and projection: the *specification*.

A result type declares attributes (primitive, or of another result type, or a collection of one)
and named views; a view lists attribute names, each optionally with the view to use for that
attribute. The view used for a nested attribute is, in this order: the one given inside the
enclosing view, the one given on the attribute's declaration, `"default"`. The empty view name
means `"default"`.

`projT` is the projected type (what `expr.Project` builds and the transport body types are
generated from), `projV` the projection of a value (what the generated `new<Type>View<View>`
functions and the response encoder put on the wire and what the client rebuilds).
There is no memoisation here: this is what projection *means*; the memoised implementation is
compared with it on every generated design.
-/
namespace GoaVerif.Views

structure AttDecl where
  name : String
  /-- result type of the attribute, if it is one -/
  target : Option String
  /-- `CollectionOf target` -/
  coll : Bool
  /-- view given on the declaration -/
  declView : Option String
deriving Repr, DecidableEq

structure ViewField where
  name : String
  /-- view given for this attribute inside the enclosing view -/
  view : Option String
deriving Repr, DecidableEq

structure RType where
  name : String
  attrs : List AttDecl
  views : List (String × List ViewField)
deriving Repr

abbrev Env := List RType

def lookupT (env : Env) (n : String) : Option RType := env.find? (·.name == n)

def normView (v : String) : String := if v == "" then "default" else v

def viewOf (t : RType) (v : String) : Option (List ViewField) :=
  (t.views.find? (·.1 == normView v)).map (·.2)

def attrOf (t : RType) (n : String) : Option AttDecl := t.attrs.find? (·.name == n)

/-- the view a nested attribute is rendered with -/
def selView (vf : ViewField) (a : AttDecl) : String :=
  match vf.view with
  | some v => v
  | none => a.declView.getD "default"

def title (s : String) : String :=
  match s.toList with
  | [] => ""
  | c :: cs => String.ofList (c.toUpper :: cs)

/-- name of the projected type -/
def projName (t : RType) (view : String) : String :=
  if normView view == "default" then t.name else t.name ++ title (normView view)

/-- projected types -/
inductive PTree where
  | prim
  | node (name : String) (attrs : List (String × PTree))
  | coll (elem : PTree)
  /-- a type that is being projected further up (recursive result types) -/
  | ref (name : String)
  | err
deriving Repr

/-- one attribute of the projected type, given the projection of nested types -/
def projTField (rec : String → String → PTree) (t : RType) (vf : ViewField) : Option (String × PTree) :=
  match attrOf t vf.name with
  | none => none
  | some a =>
    match a.target with
    | none => some (vf.name, .prim)
    | some T' =>
      let sub := rec T' (selView vf a)
      some (vf.name, if a.coll then .coll sub else sub)

def projT (env : Env) : Nat → List String → String → String → PTree
  | 0, _, _, _ => .err
  | fuel + 1, path, T, view =>
    match lookupT env T with
    | none => .err
    | some t =>
      match viewOf t view with
      | none => .err
      | some vfs =>
        let pname := projName t view
        if path.contains pname then .ref pname else
        .node pname (vfs.filterMap (projTField (projT env fuel (pname :: path)) t))

/-- value shapes: which attributes are set -/
inductive Val where
  | null
  | prim
  | obj (fields : List (String × Val))
  | arr (items : List Val)
deriving Repr

def fieldOf (fs : List (String × Val)) (n : String) : Option Val := fs.lookup n

/-- projection of one attribute value -/
def projAttr (rec : String → String → Val → Val) (vf : ViewField) (a : AttDecl) (x : Val) : Val :=
  match a.target with
  | none => x
  | some T' =>
    if a.coll then
      match x with
      | .arr xs => .arr (xs.map (rec T' (selView vf a)))
      | other => other
    else rec T' (selView vf a) x

/-- one attribute of the projected value: a view attribute that is declared and set -/
def projField (rec : String → String → Val → Val) (t : RType) (fs : List (String × Val)) (vf : ViewField) :
    Option (String × Val) :=
  match attrOf t vf.name, fieldOf fs vf.name with
  | some a, some x => some (vf.name, projAttr rec vf a x)
  | _, _ => none

/-- projection of a value of result type `T` under `view`: the attributes of the view that are
    set, each projected with the view it selects; everything else is dropped. An unknown type or
    view gives `null` (the generated code refuses those before rendering: `viewKnown`). -/
def projV (env : Env) : Nat → String → String → Val → Val
  | 0, _, _, _ => .null
  | fuel + 1, T, view, v =>
    match lookupT env T, v with
    | some t, .obj fs =>
      match viewOf t view with
      | none => .null
      | some vfs =>
        .obj (vfs.filterMap (projField (projV env fuel) t fs))
    | _, _ => .null

/-- the view name is one the type defines (what the generated `Validate<Type>` switch accepts) -/
def viewKnown (env : Env) (T view : String) : Bool :=
  match lookupT env T with
  | none => false
  | some t => (viewOf t view).isSome

def keys : Val → List String
  | .obj fs => fs.map (·.1)
  | _ => []

end GoaVerif.Views
