/-
C16 — model of goa's router layer (http/mux.go) over bytes:
`url.PathEscape`, `url.PathUnescape`, the server side `URL.setPath` (Path/RawPath), chi's
choice of routing path, a *specification* matcher standing for chi's radix tree
(segments; literal > `{name}` > trailing catch-all, with backtracking), goa's `Handle`
(rewrite of `/{*name}` to `/*`, the `wildcards` table keyed by method and rewritten
pattern), `Vars` (after `fix:` 938fc93: values are unescaped only when they were captured
from the raw path), `ResolvePattern`.
-/
namespace GoaVerif.Mux

abbrev Bytes := List UInt8

def slash : UInt8 := 47
def percent : UInt8 := 37

def isAlnumB (c : UInt8) : Bool :=
  (48 ≤ c && c ≤ 57) || (65 ≤ c && c ≤ 90) || (97 ≤ c && c ≤ 122)

/-- `-` `_` `.` `~` -/
def isUnreservedMark (c : UInt8) : Bool := c == 45 || c == 95 || c == 46 || c == 126

/-- `$ & + , / : ; = ? @` -/
def isReservedB (c : UInt8) : Bool :=
  c == 36 || c == 38 || c == 43 || c == 44 || c == 47 || c == 58 || c == 59 || c == 61 || c == 63 || c == 64

/-- net/url `shouldEscape(c, encodePathSegment)` -/
def shouldEscapeSeg (c : UInt8) : Bool :=
  if isAlnumB c then false
  else if isUnreservedMark c then false
  else if isReservedB c then (c == 47 || c == 59 || c == 44 || c == 63)
  else true

/-- net/url `shouldEscape(c, encodePath)` -/
def shouldEscapePath (c : UInt8) : Bool :=
  if isAlnumB c then false
  else if isUnreservedMark c then false
  else if isReservedB c then c == 63
  else true

def hexUpper (n : UInt8) : UInt8 := if n < 10 then 48 + n else 55 + n

def escByte (c : UInt8) : Bytes := [percent, hexUpper (c / 16), hexUpper (c % 16)]

def escapeWith (should : UInt8 → Bool) (s : Bytes) : Bytes :=
  s.flatMap fun c => if should c then escByte c else [c]

/-- `url.PathEscape` -/
def pathEscape : Bytes → Bytes := escapeWith shouldEscapeSeg
/-- `escape(s, encodePath)` (what `URL.EscapedPath`/`setPath` compare with) -/
def escapePath : Bytes → Bytes := escapeWith shouldEscapePath

def unhex (c : UInt8) : Option UInt8 :=
  if 48 ≤ c && c ≤ 57 then some (c - 48)
  else if 97 ≤ c && c ≤ 102 then some (c - 87)
  else if 65 ≤ c && c ≤ 70 then some (c - 55)
  else none

/-- `url.PathUnescape` (`unescape(s, encodePathSegment)`): none = error -/
def unescape : Bytes → Option Bytes
  | [] => some []
  | c :: rest =>
    if c == percent then
      match rest with
      | a :: b :: rest' =>
        match unhex a, unhex b with
        | some x, some y => (unescape rest').map fun r => (x * 16 + y) :: r
        | _, _ => none
      | _ => none
    else (unescape rest).map fun r => c :: r

/-- goa's `unescape` helper: falls back to the raw text on error -/
def unescapeOrRaw (s : Bytes) : Bytes := (unescape s).getD s

/-- `URL.setPath`: (Path, RawPath) for a request path `p`; none = the server answers 400 -/
def setPath (p : Bytes) : Option (Bytes × Bytes) :=
  match unescape p with
  | none => none
  | some path => some (path, if escapePath path == p then [] else p)

/-- the path chi routes on, and whether captured values are still escaped -/
def routePath (p : Bytes) : Option (Bytes × Bool) :=
  (setPath p).map fun (path, raw) => if raw != [] then (raw, true) else (path, false)

/-! ### patterns -/

inductive Seg where
  | lit (s : Bytes)
  | param (name : String)
  | catchAll (name : String)   -- only as the last segment
deriving DecidableEq, Repr

abbrev Pattern := List Seg

def splitSlash : Bytes → List Bytes
  | [] => [[]]
  | c :: cs =>
    if c == slash then [] :: splitSlash cs
    else match splitSlash cs with
      | [] => [[c]]
      | f :: fs => (c :: f) :: fs

def joinSlash : List Bytes → Bytes
  | [] => []
  | [x] => x
  | x :: xs => x ++ slash :: joinSlash xs

/-- match a pattern against the segments of a path (after the leading `/`); returns the
    captured raw values in pattern order -/
def matchSegs : Pattern → List Bytes → Option (List (String × Bytes))
  | [], [] => some []
  | [], _ :: _ => none
  | [.catchAll _], [] => none   -- `/x/*` needs the slash after `x`
  | [.catchAll n], seg :: segs => some [(n, joinSlash (seg :: segs))]
  | .catchAll _ :: _ :: _, _ => none
  | .lit s :: ps, seg :: segs => if s == seg then matchSegs ps segs else none
  | .param n :: ps, seg :: segs =>
    -- chi lets a `{name}` segment match the empty string, except when nothing at all is left
    -- of the path (`/users/` does not match `/users/{id}`)
    if seg == [] && segs == [] then none else (matchSegs ps segs).map fun r => (n, seg) :: r
  | _ :: _, [] => none

/-- specificity order used to pick among several matching patterns: literal before
    parameter before catch-all, position by position -/
def segRank : Seg → Nat
  | .lit _ => 0 | .param _ => 1 | .catchAll _ => 2

def moreSpecific : Pattern → Pattern → Bool
  | [], _ => true
  | _, [] => false
  | a :: as, b :: bs =>
    if segRank a < segRank b then true
    else if segRank b < segRank a then false
    else moreSpecific as bs

structure Route where
  method : String
  pattern : Pattern
  id : Nat
deriving Repr

/-- the route the request is dispatched to: among the routes of the request's method whose
    pattern matches, the most specific one (ties: first registered) -/
def dispatch (routes : List Route) (method : String) (path : Bytes) : Option (Route × List (String × Bytes)) :=
  match path with
  | c :: rest =>
    if c != slash then none else
    let segs := splitSlash rest
    let cands := routes.filterMap fun r =>
      if r.method == method then (matchSegs r.pattern segs).map fun caps => (r, caps) else none
    cands.foldl (fun best c =>
      match best with
      | none => some c
      | some b => if moreSpecific b.1.pattern c.1.pattern then some b else some c) none
  | [] => none

/-- `Muxer.Vars` for a request whose target path is `p` -/
def vars (routes : List Route) (method : String) (p : Bytes) : Option (Nat × List (String × Bytes)) :=
  match routePath p with
  | none => none
  | some (rp, escaped) =>
    (dispatch routes method rp).map fun (r, caps) =>
      (r.id, caps.map fun (n, v) => (n, if escaped then unescapeOrRaw v else v))

/-! ### goa's pattern rewriting and resolution -/

def showSeg : Seg → String
  | .lit s => "/" ++ (String.fromUTF8? (ByteArray.mk s.toArray)).getD "?"
  | .param n => "/{" ++ n ++ "}"
  | .catchAll n => "/{*" ++ n ++ "}"

/-- the pattern text as registered with `Handle` -/
def patternText (p : Pattern) : String := if p.isEmpty then "/" else String.join (p.map showSeg)

/-- the text chi sees: `/{*name}` rewritten to `/*` -/
def chiText (p : Pattern) : String :=
  if p.isEmpty then "/" else String.join (p.map fun s => match s with | .catchAll _ => "/*" | s => showSeg s)

/-- the `wildcards` table after registering `routes` in order: key `method::chiText` ↦ last name registered -/
def wildcardName (routes : List Route) (method : String) (chi : String) : Option String :=
  routes.foldl (fun acc r =>
    match r.pattern.getLast? with
    | some (.catchAll n) => if r.method == method && chiText r.pattern == chi then some n else acc
    | _ => acc) none

/-- `ResolvePattern` for the route chi selected -/
def resolvePattern (routes : List Route) (r : Route) : String :=
  match r.pattern.getLast? with
  | some (.catchAll _) =>
    match wildcardName routes r.method (chiText r.pattern) with
    | some n => (chiText r.pattern).dropEnd 2 |>.toString |> (· ++ "/{*" ++ n ++ "}")
    | none => chiText r.pattern
  | _ => chiText r.pattern

end GoaVerif.Mux
