/-
C10 — field numbers of gRPC request messages: what goa checks before it accepts a design
(expr/grpc_endpoint.go `Validate`, `validateMessage`, `validateRPCTags`, as written) and what a
well-formed proto3 message needs.
-/
namespace GoaVerif.Proto

structure Attr where
  name : String
  /-- the field number given with `Field(n, …)` ("rpc:tag"), if any -/
  tag : Option Nat
  /-- a OneOf union: its alternatives carry the numbers, the attribute itself has none -/
  union : Bool
  /-- a credential attribute: travels in the metadata by default -/
  security : Bool
deriving Repr, DecidableEq

structure Endpoint where
  payload : List Attr
  /-- attribute names listed with an explicit `Message(func(){ … })` -/
  message : Option (List String)
  /-- attribute names listed with `Metadata(func(){ … })` -/
  metadata : List String
  /-- the request is a stream (`StreamingPayload`): the method has no `Payload`, so the
      payload-directed checks see an empty type -/
  streaming : Bool := false
deriving Repr

/-- `validateRPCTags`: every non-union attribute has a number and no number is used twice -/
def tagsOK : List Nat → List Attr → Bool
  | _, [] => true
  | seen, a :: rest =>
    if a.union then tagsOK seen rest else
    match a.tag with
    | none => false
    | some t => if seen.contains t then false else tagsOK (t :: seen) rest

def findAttr (p : List Attr) (n : String) : Option Attr := p.find? (·.name == n)

/-- `validateMessage` as written: the loop over the listed names reports a name that is not a
    payload attribute and goes on, but **leaves the loop at the first name that is one** — only
    that single attribute reaches `validateRPCTags` -/
def explicitOK (p : List Attr) : List String → Bool
  | [] => true
  | n :: rest =>
    match findAttr p n with
    | some a => tagsOK [] [a]
    | none => false && explicitOK p rest

/-- the request-side field-number checks of `GRPCEndpointExpr.Validate` -/
def accepted (e : Endpoint) : Bool :=
  if e.streaming then true else     -- StreamingPayload: no branch looks at the numbers
  match e.message, e.metadata with
  | some names, _ => explicitOK e.payload names
  | none, [] => tagsOK [] (e.payload.filter fun a => !a.security)
  | none, _ :: _ => true      -- metadata without an explicit message: no branch checks the numbers

/-- the attributes that become fields of the request message -/
def requestFields (e : Endpoint) : List Attr :=
  match e.message with
  | some names => e.payload.filter fun a => names.contains a.name
  | none => e.payload.filter fun a => !a.security && !e.metadata.contains a.name

/-- a proto3 message: every field has a number in 1 .. 2^29-1 outside the reserved block and no
    number is used twice (union alternatives are judged where they are declared) -/
def validNumber (t : Nat) : Bool := 0 < t && t < 536870912 && !(19000 ≤ t && t ≤ 19999)

def wfFields (fs : List Attr) : Bool :=
  let plain := fs.filter fun a => !a.union
  plain.all (fun a => match a.tag with | some t => validNumber t | none => false) &&
  ((plain.filterMap (·.tag)).Nodup : Bool)

end GoaVerif.Proto
