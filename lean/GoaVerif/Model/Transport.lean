/-
C02/C03 — transport of primitives as strings (path segments, query string, headers, cookies)
and the partition of a payload over the HTTP locations.
Client side: `strconv.FormatInt/FormatUint/FormatBool` (http/codegen/templates/partial/
client_type_conversion.go.tpl); server side: `strconv.ParseInt/ParseUint(s, 10, bits)`,
`strconv.ParseBool` (partial/query_type_conversion.go.tpl), each followed by a range check.
Floats are not modelled (formatting and rounding are library behaviour).
-/
namespace GoaVerif.Transport

inductive Prim where
  | int | int32 | int64 | uint | uint32 | uint64 | bool
deriving DecidableEq, Repr

/-- value range of the integer kinds (Go `int`/`uint` are 64 bit on the platforms goa targets) -/
def Prim.range : Prim → Int × Int
  | .int | .int64 => (-(2 ^ 63), 2 ^ 63 - 1)
  | .int32 => (-(2 ^ 31), 2 ^ 31 - 1)
  | .uint | .uint64 => (0, 2 ^ 64 - 1)
  | .uint32 => (0, 2 ^ 32 - 1)
  | .bool => (0, 1)

def inRange (p : Prim) (n : Int) : Bool := decide ((p.range).1 ≤ n) && decide (n ≤ (p.range).2)

/-- what the generated client writes -/
def format (p : Prim) (n : Int) : String :=
  match p with
  | .bool => if n = 0 then "false" else "true"
  | _ => n.repr

/-- `strconv.ParseBool` -/
def parseBool (s : String) : Option Int :=
  if s ∈ ["1", "t", "T", "TRUE", "true", "True"] then some 1
  else if s ∈ ["0", "f", "F", "FALSE", "false", "False"] then some 0
  else none

/-- what the generated server reads: none = `invalid_field_type` -/
def parse (p : Prim) (s : String) : Option Int :=
  match p with
  | .bool => parseBool s
  | _ =>
    match s.toInt? with
    | some n => if inRange p n then some n else none
    | none => none

/-! ### locations -/

inductive Loc where | path | query | header | cookie | body
deriving DecidableEq, Repr

structure Mapping where
  path : List String
  query : List String
  header : List String
  cookie : List String

/-- where an attribute travels: the first mapping that names it, else the body
    (`expr/http_body_types.go`: body = payload − headers − cookies − params) -/
def locate (m : Mapping) (a : String) : Loc :=
  if a ∈ m.path then .path
  else if a ∈ m.query then .query
  else if a ∈ m.header then .header
  else if a ∈ m.cookie then .cookie
  else .body

def bodyAttrs (m : Mapping) (attrs : List String) : List String :=
  attrs.filter fun a => locate m a == .body

/-! ### arrays outside the body
How the elements of an array attribute travel under the attribute's key, as the generated encoders
write them and the generated decoders read them (elements already formatted as strings):
request query string — one `k=v` pair per element; request header — one header line per element
(`req.Header.Add`); **response header — ONE value, the elements joined by `", "`**
(`partial/header_conversion.go.tpl`), while the client reads one element per header value
(`resp.Header[name]`) and never splits. -/

inductive Dir where | request | response
deriving DecidableEq, Repr

/-- the values on the wire under the key -/
def encodeElems (d : Dir) (l : Loc) (xs : List String) : List String :=
  match d, l with
  | .response, .header => [", ".intercalate xs]
  | _, _ => xs

/-- what the decoder of the other side makes of the values under the key: one element per value -/
def decodeElems (_d : Dir) (_l : Loc) (vals : List String) : List String := vals

/-- what arrives -/
def deliverElems (d : Dir) (l : Loc) (xs : List String) : List String := decodeElems d l (encodeElems d l xs)

end GoaVerif.Transport
