import GoaVerif.Model.Validation
/-!
C04 — the ASSEMBLY of the validation code (codegen/validation.go `recurseValidationCode`,
`validateAttribute`, `validationCode` and the templates at the end of that file), for the
attribute context of HTTP body types (`AttributeContext.Pointer = true`: every field of a server
request body / client response body type is a pointer).

`compile` mirrors the generator: what it emits for an attribute is a list of statements (`Code`)
against "the current target"; `run` is the reading of those Go statements on a decoded value
(`Val.absent` = a nil pointer / nil slice / nil map / missing key).

What is kept of the Go code:
* the order of `validationCode`: enum, format, pattern, exclusive minimum, minimum, exclusive
  maximum, maximum, min length, max length, then the required checks, then the recursion;
* every template wraps ITS OWN check in `if target != nil { … }` when `isPointer` holds and the
  value is a non-bytes primitive; the length template guards strings only — arrays, maps and bytes
  are measured with `len(target)` unguarded;
* `exclMinMaxValTmpl` chooses its branch by `.isExclMin`, which `validationCode` sets for the
  exclusive minimum and never resets: with both exclusive bounds the "maximum" check is the minimum
  check again (known finding; `exMaxCond`);
* `validateAttribute`: nothing when the code is empty; arrays and maps as they are; in a
  non-pointer context (elements of arrays of primitives, keys and values of maps) as they are;
  otherwise wrapped in a nil guard unless the code already STARTS with one;
* array elements of primitive type and everything under a map is validated with `Pointer = false`;
* `generatedRequiredValidation`: a required check per required field, except non-pointer non-bytes
  primitives.
User types (a call of `Validate<Type>` under a nil guard) are not in this model: the specification
`Validation.Att` is the attribute with its references resolved.
-/
namespace GoaVerif.ValCode
open GoaVerif.Validation

/-- the condition of an emitted `if`: it FIRES (the error is merged) when it holds -/
inductive Cond where
  | notInNums (xs : List Rat')
  | notInStrs (xs : List String)
  | badFormat
  | badPattern
  | lt (b : Rat') | gt (b : Rat') | le (b : Rat') | ge (b : Rat')
  | runesLt (n : Nat) | runesGt (n : Nat)
  | lenLt (n : Nat) | lenGt (n : Nat)
deriving Repr

inductive Code where
  /-- `if <cond on target> { err = goa.MergeErrors(err, goa.<viol>Error(…)) }` -/
  | check (viol : Viol) (c : Cond)
  /-- `if target != nil { body }` -/
  | ifNonNil (body : List Code)
  /-- the statements emitted for the field `name` of the target (their target is `target.name`) -/
  | field (name : String) (body : List Code)
  /-- `if target.name == nil { missing_field }` -/
  | missing (name : String)
  /-- `for _, e := range target { body }` -/
  | each (body : List Code)
  /-- `for k, v := range target { keys; values }` -/
  | eachKV (k v : List Code)
deriving Repr

/-- Go's `len` of a slice, map or byte slice; `len(nil) = 0` -/
def goLen : Val → Nat
  | .arr vs => vs.length
  | .map kvs => kvs.length
  | .bytes n => n
  | _ => 0

def Cond.fires : Cond → Val → Bool
  | .notInNums xs, .num x => !(xs.any (·.beq x))
  | .notInStrs xs, .str s _ _ => !(xs.contains s)
  | .badFormat, .str _ f _ => !f
  | .badPattern, .str _ _ p => !p
  | .lt b, .num x => x.lt b
  | .gt b, .num x => b.lt x
  | .le b, .num x => x.le b
  | .ge b, .num x => b.le x
  | .runesLt n, .str s _ _ => decide (s.length < n)
  | .runesGt n, .str s _ _ => decide (s.length > n)
  | .lenLt n, v => decide (goLen v < n)
  | .lenGt n, v => decide (goLen v > n)
  | _, _ => false

/-- `target.name` of a decoded struct: a missing key is a nil field -/
def fieldVal (n : String) (vals : List (String × Val)) : Val :=
  match vals.find? (fun p => p.1 == n) with
  | some (_, v) => v
  | none => .absent

mutual
def run : Code → Val → List Viol
  | .check viol c, v => if c.fires v then [viol] else []
  | .ifNonNil b, v => match v with
    | .absent => []
    | _ => runL b v
  | .field n b, v => match v with
    | .obj vals => runL b (fieldVal n vals)
    | _ => []
  | .missing n, v => match v with
    | .obj vals => (match fieldVal n vals with | .absent => [.missingField] | _ => [])
    | _ => []
  | .each b, v => match v with
    | .arr vs => vs.flatMap (fun e => runL b e)
    | _ => []
  | .eachKV k e, v => match v with
    | .map kvs => kvs.flatMap (fun kv => runL k kv.1 ++ runL e kv.2)
    | _ => []
def runL : List Code → Val → List Viol
  | [], _ => []
  | c :: cs, v => run c v ++ runL cs v
end

/-! ### the generator -/

/-- a template's own nil guard (`{{ if .isPointer }}if target != nil {`) -/
def wrap (g : Bool) (c : Code) : Code := if g then .ifNonNil [c] else c

/-- `exclMinMaxValTmpl` rendered for the exclusive maximum: `.isExclMin` is still set when the
    attribute has an exclusive minimum too -/
def exMaxCond (r : Rules) (m : Rat') : Cond :=
  match r.exMin with
  | some m' => .le m'
  | none => .ge m

def rangeChecks (r : Rules) (g : Bool) : List Code :=
  (match r.exMin with | some m => [wrap g (.check .invalidRange (.le m))] | none => []) ++
  (match r.min with | some m => [wrap g (.check .invalidRange (.lt m))] | none => []) ++
  (match r.exMax with | some m => [wrap g (.check .invalidRange (exMaxCond r m))] | none => []) ++
  (match r.max with | some m => [wrap g (.check .invalidRange (.gt m))] | none => [])

/-- `lengthValTmpl` for arrays, maps and bytes: never guarded -/
def lenChecks (r : Rules) : List Code :=
  (match r.minLen with | some m => [.check .invalidLength (.lenLt m)] | none => []) ++
  (match r.maxLen with | some m => [.check .invalidLength (.lenGt m)] | none => [])

/-- `lengthValTmpl` for strings: guarded when `isPointer` -/
def runeChecks (r : Rules) (g : Bool) : List Code :=
  (match r.minLen with | some m => [wrap g (.check .invalidLength (.runesLt m))] | none => []) ++
  (match r.maxLen with | some m => [wrap g (.check .invalidLength (.runesGt m))] | none => [])

/-- `validationCode` on a primitive; `g` = `isPointer` -/
def primChecks (k : Kind) (r : Rules) (g : Bool) : List Code :=
  match k with
  | .boolean => []
  | .number _ _ _ =>
    (if r.hasEnum then [wrap g (.check .invalidEnumValue (.notInNums r.enumNums))] else []) ++ rangeChecks r g
  | .string =>
    (if r.hasEnum then [wrap g (.check .invalidEnumValue (.notInStrs r.enumStrs))] else []) ++
    (if r.format then [wrap g (.check .invalidFormat .badFormat)] else []) ++
    (if r.pattern then [wrap g (.check .invalidPattern .badPattern)] else []) ++
    runeChecks r g
  | .bytes => lenChecks r

def isColl : Att → Bool
  | .arr _ _ | .map _ _ _ => true
  | _ => false

/-- `expr.IsPrimitive` -/
def isPrim : Att → Bool
  | .prim _ _ => true
  | _ => false

/-- primitives that are never nil in a non-pointer context (`generatedRequiredValidation`) -/
def isValuePrim : Att → Bool
  | .prim .bytes _ => false
  | .prim _ _ => true
  | _ => false

def startsWithGuard : List Code → Bool
  | .ifNonNil _ :: _ => true
  | _ => false

/-- the tail of `validateAttribute` for a non-user type: `p` = `ctx.Pointer`, `req` as passed -/
def finishAttr (p req : Bool) (a : Att) (code : List Code) : List Code :=
  if code.isEmpty then []
  else if isColl a then code
  else if !p && req then code
  else if startsWithGuard code then code
  else [.ifNonNil code]

/-- `recurseValidationCode` (fuel bounds the depth of the attribute); `p` = `attCtx.Pointer`,
    `req` = the attribute is required (the specification has no default values, so
    `isPointer = p || !req`) -/
def compile : Nat → Bool → Bool → Att → List Code
  | 0, _, _, _ => []
  | _ + 1, p, req, .prim k r => primChecks k r (p || !req)
  | f + 1, p, _, .arr r elem =>
    let p' := if p && isPrim elem then false else p
    let c := finishAttr p' true elem (compile f p' true elem)
    lenChecks r ++ (if c.isEmpty then [] else [.each c])
  | f + 1, _, _, .map r k e =>
    let kc := finishAttr false true k (compile f false true k)
    let ec := finishAttr false true e (compile f false true e)
    lenChecks r ++ (if kc.isEmpty && ec.isEmpty then [] else [.eachKV kc ec])
  | f + 1, p, _, .obj fields =>
    (fields.filter (fun fl => fl.2.1 && (p || !isValuePrim fl.2.2))).map (fun fl => Code.missing fl.1) ++
    fields.flatMap (fun fl =>
      let c := finishAttr p fl.2.1 fl.2.2 (compile f p fl.2.1 fl.2.2)
      if c.isEmpty then [] else [Code.field fl.1 c])

/-- `codegen.ValidationCode(att, nil, ctx{Pointer: true}, req = true, …, "body")` -/
def compileBody (fuel : Nat) (a : Att) : List Code := compile fuel true true a

end GoaVerif.ValCode
