import GoaVerif.Generated.TrGrpcerr
/-
C10 — goa's gRPC runtime around the generated code: the unary server handler (grpc/handler.go
`unaryHandler.Handle`) followed by what the generated server does with its outcome
(`EncodeError`, status function translated from /repo: Generated/TrGrpcerr.lean), as the client
invoker (grpc/client.go) sees it. Decoder, endpoint and encoder are parameters (the generated
functions); metadata is a list of (key, values).
-/
namespace GoaVerif.GrpcHandler
open GoaVerif.Generated.TrGrpcerr

abbrev MD := List (String × List String)

/-- how a step of the handler ends -/
inductive Step where
  | ok
  | plain                       -- an error that is not a goa.ServiceError
  | svc (e : ServiceError)
deriving Repr

structure Spec where
  dec : Step
  ep : Step
  enc : Step
  hdr : MD     -- what the response encoder puts into the header metadata
  trlr : MD    -- ... into the trailer metadata
deriving Repr

/-- what the caller of the client invoker observes -/
structure Seen where
  code : Int           -- gRPC status code (0 = OK)
  ran : Bool           -- the endpoint (user code) was invoked
  result : Bool        -- the response message reached the response decoder
  hdr : MD
  trlr : MD
deriving Repr

def failed (code : Int) (ran : Bool) : Seen := ⟨code, ran, false, [], []⟩

/-- status code of an error the handler returns, after `EncodeError`; `plainCode` is the code the
    handler itself chose for errors that are not service errors -/
def codeOf (plainCode : Int) : Step → Int
  | .ok => 0
  | .plain => plainCode
  | .svc e => grpcErrorCode e

def unary (s : Spec) : Seen :=
  match s.dec with
  | .ok =>
    match s.ep with
    | .ok =>
      match s.enc with
      | .ok => ⟨0, true, true, s.hdr, s.trlr⟩     -- SendHeader if non-empty, SetTrailer if non-empty, then the message
      | e => failed (codeOf 2 e) true             -- codes.Unknown
    | e => failed (codeOf 2 e) true               -- returned as is; EncodeError makes it Unknown
  | e => failed (codeOf 3 e) false                -- codes.InvalidArgument

/-- the stream handler as the generated server uses it: `Decode` (request message and metadata), and only if that
    succeeded `Handle` (the endpoint, which gets the stream); (status code, endpoint invoked) -/
def stream (dec ep : Step) : Int × Bool :=
  match dec with
  | .ok => (codeOf 2 ep, true)
  | e => (codeOf 3 e, false)

end GoaVerif.GrpcHandler
