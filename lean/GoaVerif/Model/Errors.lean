/-
C18 — value-level model of `goa.MergeErrors` (pkg/error.go), after the
`fix:` commit that snapshots the accumulator before it is mutated.

Go pointers are erased here: the ownership argument (DESIGN.md §C18) is that
inside one merge *tree* every `*ServiceError` is used as an operand exactly
once, the history entries of a result are either fresh snapshots or results of
right operands that are never touched again, so value semantics and pointer
semantics give the same observations. The correspondence run observes
`History()` on the real implementation *after the whole tree is merged*, so a
re-introduced alias shows up as a disagreement.
-/
namespace GoaVerif.Errors

/-- What the property observes of a history entry. -/
structure Snap where
  name : String
  field : Option String
  msg : String
deriving DecidableEq, Repr

/-- `*goa.ServiceError`. `causes` is the flattened `errors.Join` tree of `err`
    (identities of the original Go errors reachable through `Unwrap`). -/
@[ext] structure SE where
  name : String
  field : Option String
  msg : String
  timeout : Bool
  temporary : Bool
  fault : Bool
  hist : List Snap
  causes : List Nat
deriving DecidableEq, Repr

def SE.snap (e : SE) : Snap := ⟨e.name, e.field, e.msg⟩

/-- `(*ServiceError).History`. -/
def SE.history (e : SE) : List Snap :=
  if e.hist.isEmpty then [e.snap] else e.hist

/-- A Go `error` value as far as `MergeErrors` can tell. -/
inductive GoErr where
  | nil
  /-- an error whose `Unwrap` chain contains no `*ServiceError`; `cid` is its identity. -/
  | plain (cid : Nat) (msg : String)
  | svc (e : SE)
  /-- a non-ServiceError wrapper (`fmt.Errorf("…%w", e)`) whose chain reaches `e`:
      `errors.As` returns `e`, the wrapper's own text is dropped. -/
  | wrapSvc (e : SE)
deriving DecidableEq, Repr

/-- `asError`. -/
def asSvc : GoErr → SE
  | .nil => ⟨"error", none, "", false, false, true, [], []⟩  -- never used: callers test for nil first
  | .plain cid msg => ⟨"error", none, msg, false, false, true, [], [cid]⟩
  | .svc e => e
  | .wrapSvc e => e

/-- The body of `MergeErrors` after both operands are known to be non-nil. -/
def mergeSE (e o : SE) : SE :=
  { name := if e.name == "error" then o.name else e.name
    field := e.field
    msg := e.msg ++ "; " ++ o.msg
    timeout := e.timeout && o.timeout
    temporary := e.temporary && o.temporary
    fault := e.fault && o.fault
    hist := e.history ++ o.history
    causes := e.causes ++ o.causes }

/-- `goa.MergeErrors`. -/
def merge : GoErr → GoErr → GoErr
  | .nil, other => other
  | err, .nil => err
  | err, other => .svc (mergeSE (asSvc err) (asSvc other))

/-- A parenthesisation of a sequence of errors. -/
inductive Tree where
  | leaf (e : GoErr)
  | node (l r : Tree)
deriving Repr

def Tree.leaves : Tree → List GoErr
  | .leaf e => [e]
  | .node l r => l.leaves ++ r.leaves

def mergeTree : Tree → GoErr
  | .leaf e => e
  | .node l r => merge (mergeTree l) (mergeTree r)

/-- Left-to-right merge of a sequence. -/
def mergeList : List GoErr → GoErr
  | [] => .nil
  | e :: rest => merge e (mergeList rest)

/-! ### Specification-side closed forms -/

def joinMsgs : List String → String
  | [] => ""
  | [m] => m
  | m :: rest => m ++ "; " ++ joinMsgs rest

def firstSpecific : List String → String
  | [] => "error"
  | n :: rest => if n == "error" then firstSpecific rest else n

def GoErr.nonNil : GoErr → Bool
  | .nil => false
  | _ => true

end GoaVerif.Errors
