import GoaVerif.Model.Validation
/-
C14 — the JSON-Schema subset of the generated OpenAPI 3 documents.

`Schema` is what a schema object of openapi3.json says (after `$ref`s are followed); `accepts` is
its meaning on values, written from the JSON-Schema / OpenAPI 3.0 texts: type and numeric format
ranges (int32 / int64), enum, minimum / maximum with the 3.0 boolean `exclusive…`, minLength /
maxLength in characters, pattern and format (oracle bits on the value, as in C04), minItems /
maxItems, properties / required / additionalProperties, min/maxProperties. A `Bytes` value travels
as a base64 string: its schema length is the length of that string.

`schemaOf` is the schema goa documents an attribute with (http/codegen/openapi/json_schema.go,
v3/types.go), kept as written where it differs from the validation the server performs.
Values are those of `Model/Validation.lean`; `violations` there is the meaning of the design.
-/
namespace GoaVerif.Schema
open GoaVerif.Validation

inductive Schema where
  /-- no constraint (`{}` / `additionalProperties: true`) -/
  | any
  | boolean
  /-- `type: integer|number`, the range of its `format`, and the numeric keywords in `r` -/
  | number (integer : Bool) (lo hi : Option Int) (r : Rules)
  /-- `type: string`; `binary` marks `format: binary|byte` (a base64 string) -/
  | string (binary : Bool) (r : Rules)
  /-- `type: array`; `r.minLen / r.maxLen` are minItems / maxItems -/
  | array (r : Rules) (items : Schema)
  /-- `type: object` with `properties`; `r.minLen / r.maxLen` are minProperties / maxProperties;
      undeclared properties are allowed (additionalProperties is absent) -/
  | object (props : List (String × Schema)) (required : List String) (r : Rules)
  /-- `type: object` without `properties`, values described by `additionalProperties`
      (`none`: `true`, anything goes): how a map is documented -/
  | dict (additional : Option Schema) (r : Rules)
deriving Repr

def base64Len (n : Nat) : Nat := 4 * ((n + 2) / 3)

def numOK (r : Rules) (x : Rat') : Bool :=
  (!r.hasEnum || r.enumNums.any (·.beq x)) && (rangeViol r x).isEmpty

def strOK (r : Rules) (s : String) (fmtOk patOk : Bool) : Bool :=
  (!r.hasEnum || r.enumStrs.contains s) && (!r.format || fmtOk) && (!r.pattern || patOk) &&
  (lengthViol r s.length).isEmpty

/-- does the value conform to the schema? `fuel` bounds the nesting depth, as in `violations`;
    an absent value conforms (presence is the business of `required`) -/
def accepts : Nat → Schema → Val → Bool
  | 0, _, _ => true
  | _, _, .absent => true
  | _, .any, _ => true
  | _, .boolean, .bool _ => true
  | _, .number isInt lo hi r, .num x =>
    (!isInt || x.den == 1) &&
    (match lo with | some l => decide (l * x.den ≤ x.num) | none => true) &&
    (match hi with | some h => decide (x.num ≤ h * x.den) | none => true) &&
    numOK r x
  | _, .string false r, .str s fmtOk patOk => strOK r s fmtOk patOk
  | _, .string true r, .bytes n => (lengthViol r (base64Len n)).isEmpty
  | fuel + 1, .array r items, .arr vs =>
    (lengthViol r vs.length).isEmpty && vs.all (accepts fuel items)
  | fuel + 1, .object props req r, .obj vals =>
    (lengthViol r vals.length).isEmpty &&
    props.all fun p =>
      match vals.find? (fun q => q.1 == p.1) with
      | some (_, .absent) | none => !req.contains p.1
      | some (_, v) => accepts fuel p.2 v
  | fuel + 1, .dict addl r, .map kvs =>
    (lengthViol r kvs.length).isEmpty &&
    kvs.all fun kv =>
      accepts fuel (.string false {}) kv.1 &&   -- JSON object keys are strings
      (match addl with | some s => accepts fuel s kv.2 | none => true)
  | _, _, _ => false

/-- the format range goa documents an integer kind with: `int32` for the 32-bit kinds (signed or
    not), `int64` for all others -/
def formatRange (_lo hi : Option Int) : Option Int × Option Int :=
  match hi with
  | some h => if h ≤ 4294967295 then (some (-2147483648), some 2147483647)
              else (some (-9223372036854775808), some 9223372036854775807)
  | none => (some (-9223372036854775808), some 9223372036854775807)

/-- the schema goa documents an attribute with -/
def schemaOf : Att → Schema
  | .prim .boolean _ => .boolean
  | .prim (.number isInt lo hi) r =>
    if isInt then .number true (formatRange lo hi).1 (formatRange lo hi).2 r else .number false none none r
  | .prim .string r => .string false r
  | .prim .bytes r => .string true r
  | .arr r e => .array r (schemaOf e)
  /- a map is an object whose values follow the element schema; key validations cannot be
     expressed and the map's own MinLength/MaxLength are written as (vacuous) string keywords -/
  | .map _ (.prim .string _) e => .dict (some (schemaOf e)) {}
  /- with keys of another type the values are not described at all (`additionalProperties: true`) -/
  | .map _ _ _ => .dict none {}
  | .obj fields => .object (schemaFields fields) (requiredOf fields) {}
where
  schemaFields : List (String × Bool × Att) → List (String × Schema)
    | [] => []
    | (n, _, a) :: rest => (n, schemaOf a) :: schemaFields rest
  requiredOf : List (String × Bool × Att) → List String
    | [] => []
    | (n, true, _) :: rest => n :: requiredOf rest
    | (_, false, _) :: rest => requiredOf rest

/-- Where the documented schema and the design's validations are meant to coincide:
    integer kinds whose type range is the range of their documented format (the signed kinds),
    no length rules on `Bytes`, maps with unconstrained string keys and no length rules, and
    pairwise distinct field names. -/
def agree : Att → Bool
  | .prim .boolean _ => true
  | .prim (.number isInt lo hi) _ =>
    if isInt then lo == (formatRange lo hi).1 && hi == (formatRange lo hi).2 else lo.isNone && hi.isNone
  | .prim .string _ => true
  | .prim .bytes r => r.minLen.isNone && r.maxLen.isNone
  | .arr _ e => agree e
  | .map r k e =>
    r.minLen.isNone && r.maxLen.isNone &&
    (match k with
     | .prim .string kr => !kr.hasEnum && !kr.format && !kr.pattern && kr.minLen.isNone && kr.maxLen.isNone
     | _ => false) && agree e
  | .obj fields => agreeFields fields && distinctNames fields
where
  agreeFields : List (String × Bool × Att) → Bool
    | [] => true
    | (_, _, a) :: rest => agree a && agreeFields rest
  distinctNames : List (String × Bool × Att) → Bool
    | [] => true
    | (n, _, _) :: rest => !(rest.any (·.1 == n)) && distinctNames rest

end GoaVerif.Schema
