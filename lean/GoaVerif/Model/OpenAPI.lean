/-
C07 — what it means for an OpenAPI document to "list exactly the operations the server mounts":
the rewriting of goa route patterns into OpenAPI path templates, the comparison of the two
operation sets, and the consistency of path parameters with the template.
-/
namespace GoaVerif.OpenAPI

inductive Seg where
  | lit (s : List Char)
  /-- `{name}` or, with `catchAll`, `{*name}` -/
  | var (name : List Char) (catchAll : Bool)
deriving Repr, DecidableEq

/-- split at every `/` -/
def splitSlash : List Char → List (List Char)
  | [] => [[]]
  | c :: cs =>
    match splitSlash cs with
    | [] => [[c]]   -- unreachable: the result is never empty
    | seg :: rest => if c == '/' then [] :: seg :: rest else (c :: seg) :: rest

/-- one path segment of a goa route pattern -/
def parseSeg (s : List Char) : Seg :=
  match s with
  | '{' :: '*' :: rest => if rest.getLast? == some '}' then .var rest.dropLast true else .lit s
  | '{' :: rest => if rest.getLast? == some '}' then .var rest.dropLast false else .lit s
  | _ => .lit s

def segsOf (pattern : List Char) : List Seg := (splitSlash pattern).map parseSeg

/-- OpenAPI has one kind of path variable -/
def forget : Seg → Seg
  | .lit s => .lit s
  | .var n _ => .var n false

def renderSeg : Seg → List Char
  | .lit s => s
  | .var n false => '{' :: n ++ ['}']
  | .var n true => '{' :: '*' :: n ++ ['}']

def render (segs : List Seg) : List Char := ['/'].intercalate (segs.map renderSeg)

/-- the OpenAPI path template of a mounted pattern -/
def template (pattern : String) : String := String.ofList (render ((segsOf pattern.toList).map forget))

def varsOf : List Seg → List String
  | [] => []
  | .lit _ :: r => varsOf r
  | .var n _ :: r => String.ofList n :: varsOf r

/-- an operation: method and path template -/
abbrev Op := String × String

/-- (documented but not mounted, mounted but not documented) -/
def opsDiff (documented mounted : List Op) : List Op × List Op :=
  (documented.filter (fun o => !mounted.contains o), mounted.filter (fun o => !documented.contains o))

/-- the path parameters an operation declares against the variables of its template:
    (variables without a parameter, parameters without a variable) -/
def pathParamDiff (tmpl : String) (declared : List String) : List String × List String :=
  let vars := varsOf (segsOf tmpl.toList)
  (vars.filter (fun v => !declared.contains v), declared.filter (fun d => !vars.contains d))

end GoaVerif.OpenAPI
