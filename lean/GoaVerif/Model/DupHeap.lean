/-
C13 — heap model of `expr.Dup` / `dupper.DupType` / `dupper.DupAttribute` (expr/dup.go).

Pointers are addresses into a heap (a list of cells); the copy allocates at the end of the heap.
What the model keeps of the Go code:
  * primitives (and `Empty`) are returned as they are (shared, immutable);
  * arrays, maps, objects and unions get a new cell whose attributes are copied;
  * a user type is copied once per `Dup` call: the shallow copy (`actual.Dup(nil)`) is allocated and
    entered in the `uts` memo BEFORE its attribute is copied, then `SetAttribute` overwrites the
    attribute pointer of the new cell — this is what makes recursive types terminate;
  * `DupAttribute` allocates new metadata and validation containers (after the fix: commits
    4007846, 6a474cd, 7cc0350) and a new attribute cell;
  * a result type's `Views` slice is NOT copied by `ResultTypeExpr.Dup` (known finding): the copy
    keeps the original's address.
`none` = out of fuel or a malformed heap (a pointer of the wrong sort).
-/
namespace GoaVerif.DupHeap

inductive Cell where
  | prim (n : String)
  | arr (e : Nat)
  | map (k e : Nat)
  | obj (fs : List (String × Nat))
  | union (n : String) (vs : List (String × Nat))
  | user (id : String) (att : Nat) (views : Option Nat)
  | att (typ : Nat) (md : Option Nat) (val : Option Nat)
  | blob (content : String)
deriving DecidableEq, Repr

/-- the pointers a copy is responsible for (the `views` pointer of a result type is left out:
    it is shared by `ResultTypeExpr.Dup`, see `views_shared`) -/
def Cell.ptrs : Cell → List Nat
  | .prim _ => []
  | .arr e => [e]
  | .map k e => [k, e]
  | .obj fs => fs.map (·.2)
  | .union _ vs => vs.map (·.2)
  | .user _ a _ => [a]
  | .att t m v => t :: (m.toList ++ v.toList)
  | .blob _ => []

structure St where
  heap : List Cell
  uts : List (String × Nat)

def alloc (σ : St) (c : Cell) : Nat × St := (σ.heap.length, { σ with heap := σ.heap ++ [c] })

/-- `MetaExpr.Dup` / `ValidationExpr.Dup`: a new container with the same content -/
def dupBlob (σ : St) : Option Nat → Option (Option Nat × St)
  | none => some (none, σ)
  | some b =>
    match σ.heap[b]? with
    | some (.blob s) => let (b', σ') := alloc σ (.blob s); some (some b', σ')
    | _ => none

/-- copy the attributes of an object / union in order -/
def dupList (f : Nat → St → Option (Nat × St)) : List (String × Nat) → St → Option (List (String × Nat) × St)
  | [], σ => some ([], σ)
  | (n, a) :: fs, σ =>
    match f a σ with
    | none => none
    | some (a', σ1) =>
      match dupList f fs σ1 with
      | none => none
      | some (fs', σ2) => some ((n, a') :: fs', σ2)

inductive Mode where | typ | att
deriving DecidableEq

/-- `DupType` (mode `typ`) and `DupAttribute` (mode `att`) -/
def dup : Nat → Mode → Nat → St → Option (Nat × St)
  | 0, _, _, _ => none
  | fuel + 1, .att, a, σ =>
    match σ.heap[a]? with
    | some (.att t m v) =>
      match dupBlob σ v with
      | none => none
      | some (v', σ1) =>
        match dupBlob σ1 m with
        | none => none
        | some (m', σ2) =>
          match dup fuel .typ t σ2 with
          | none => none
          | some (t', σ3) => some (alloc σ3 (.att t' m' v'))
    | _ => none
  | fuel + 1, .typ, t, σ =>
    match σ.heap[t]? with
    | some (.prim _) => some (t, σ)
    | some (.arr e) =>
      match dup fuel .att e σ with
      | none => none
      | some (e', σ1) => some (alloc σ1 (.arr e'))
    | some (.map k e) =>
      match dup fuel .att k σ with
      | none => none
      | some (k', σ1) =>
        match dup fuel .att e σ1 with
        | none => none
        | some (e', σ2) => some (alloc σ2 (.map k' e'))
    | some (.obj fs) =>
      match dupList (dup fuel .att) fs σ with
      | none => none
      | some (fs', σ1) => some (alloc σ1 (.obj fs'))
    | some (.union n vs) =>
      match dupList (dup fuel .att) vs σ with
      | none => none
      | some (vs', σ1) => some (alloc σ1 (.union n vs'))
    | some (.user id a views) =>
      match σ.uts.lookup id with
      | some u => some (u, σ)
      | none =>
        let (u, σ1) := alloc σ (.user id a views)
        match dup fuel .att a { σ1 with uts := (id, u) :: σ1.uts } with
        | none => none
        | some (a', σ2) => some (u, { σ2 with heap := σ2.heap.set u (.user id a' views) })
    | _ => none

/-- `expr.Dup(d)`: a fresh dupper -/
def dupTop (fuel : Nat) (heap : List Cell) (root : Nat) : Option (Nat × List Cell) :=
  match dup fuel .typ root ⟨heap, []⟩ with
  | some (r, σ) => some (r, σ.heap)
  | none => none

end GoaVerif.DupHeap
