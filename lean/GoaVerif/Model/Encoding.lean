/-
C15 — model of content negotiation in http/encoding.go: `RequestDecoder`,
`ResponseEncoder` (with its `negotiate` closure), `ResponseDecoder`,
`SetContentType`, `RequestEncoder`. `mime.ParseMediaType` is a parameter
`pm : String → String × Bool` (media type returned, `err == nil`): the real
function returns a media type even together with some errors and the code uses
it, so the pair is kept. The codecs themselves (encoding/json|xml|gob, text) are
library code and are represented by their format tag only.
-/
namespace GoaVerif.Encoding

inductive Fmt where | json | xml | gob | text
deriving DecidableEq, Repr

/-- What a decoder selection returns: a codec or the "unsupported" decoder. -/
inductive Dec where
  | fmt (f : Fmt)
  | unsupported (ct : String)
deriving DecidableEq, Repr

abbrev PM := String → String × Bool

def sfx (s p : String) : Bool := p.toList.isSuffixOf s.toList
def hasPlus (s : String) : Bool := s.toList.contains '+'

/-- the `switch` shared by the designed-content-type branch of `ResponseEncoder`
    and by `ResponseDecoder` -/
def bySuffix (mt : String) : Fmt :=
  if mt == "application/json" || sfx mt "+json" then .json
  else if mt == "application/xml" || sfx mt "+xml" then .xml
  else if mt == "application/gob" || sfx mt "+gob" then .gob
  else if mt == "text/html" || mt == "text/plain" || sfx mt "+html" || sfx mt "+txt" then .text
  else .json

/-- `negotiate` closure of `ResponseEncoder` -/
def negotiate (a : String) : Option Fmt × String :=
  if a == "" || a == "application/json" then (some .json, "application/json")
  else if a == "application/xml" then (some .xml, "application/xml")
  else if a == "application/gob" then (some .gob, "application/gob")
  else if a == "text/html" || a == "text/plain" then (some .text, a)
  else (none, "")

/-- `SetContentType`: `h` is the header already present on the response. -/
def setContentType (h ct : String) : String :=
  if h == "" then ct
  else if ct != "application/json" && ct != "application/xml" then ct
  else if hasPlus h then h
  else h ++ (if ct == "application/xml" then "+xml" else "+json")

/-- `ResponseEncoder`: returns the encoder (none = Go `nil`) and the Content-Type
    header on the response afterwards. An unparseable designed content type falls back
    to JSON (`fix:` commit ca121ec; before it the encoder was `nil`). -/
def responseEncoder (pm : PM) (accept ct preset : String) : Option Fmt × String :=
  if ct != "" then
    if (pm ct).2 then (some (bySuffix (pm ct).1), setContentType preset (pm ct).1)
    else (some .json, setContentType preset "application/json")
  else
    match (negotiate accept).1 with
    | some e => (some e, setContentType preset (negotiate accept).2)
    | none =>
      if (pm accept).2 then
        match (negotiate (pm accept).1).1 with
        | some e => (some e, setContentType preset (negotiate (pm accept).1).2)
        | none => (some .json, setContentType preset "application/json")
      else (some .json, setContentType preset "application/json")

/-- the "sanitize" step shared by the decoders: the parsed media type when parsing succeeds -/
def normCT (pm : PM) (h : String) : String := if (pm h).2 then (pm h).1 else h

/-- `ResponseDecoder` applied to a Content-Type header value. -/
def responseDecoder (pm : PM) (ct : String) : Fmt :=
  if ct == "" then .json else bySuffix (normCT pm ct)

/-- the content type `RequestDecoder` switches on -/
def reqCT (pm : PM) (h : String) : String :=
  if h == "" then "application/json" else normCT pm h

def reqTable (ct : String) : Dec :=
  if ct == "application/json" then .fmt .json
  else if ct == "application/gob" then .fmt .gob
  else if ct == "application/xml" then .fmt .xml
  else if ct == "text/html" || ct == "text/plain" then .fmt .text
  else .unsupported ct

/-- `RequestDecoder` applied to a Content-Type header value. -/
def requestDecoder (pm : PM) (h : String) : Dec := reqTable (reqCT pm h)

/-- `RequestEncoder`: always JSON; header set only when absent. -/
def requestEncoder (h : String) : Fmt × String :=
  (.json, if h == "" then "application/json" else h)

end GoaVerif.Encoding
