/-
C17/C20 — `goa.ValidatePattern` and its shared cache as an interleaving transition system.
Each call is three atomic steps (what the RWMutex makes atomic): read the cache under the
read lock (a miss compiles, locally); on a miss write the compiled regexp under the write
lock; match. `compile`/`isMatch` stand for package regexp.
-/
namespace GoaVerif.PatternCache

structure World (R : Type) where
  compile : String → R
  isMatch : R → String → Bool

inductive PC (R : Type) where
  | start
  | haveR (r : R) (needWrite : Bool)
  | done (verdict : Bool)

structure Thread (R : Type) where
  p : String
  v : String
  pc : PC R

/-- newest binding first: `knownPatterns[p] = r` shadows older bindings -/
abbrev Cache (R : Type) := List (String × R)

def lookup {R} (c : Cache R) (p : String) : Option R :=
  match c.find? (fun e => e.1 == p) with
  | some e => some e.2
  | none => none

structure State (R : Type) where
  cache : Cache R
  threads : List (Thread R)

/-- one atomic step of one call -/
def stepThread {R} (W : World R) (c : Cache R) (t : Thread R) : Cache R × Thread R :=
  match t.pc with
  | .start =>
    match lookup c t.p with
    | some r => (c, { t with pc := .haveR r false })
    | none => (c, { t with pc := .haveR (W.compile t.p) true })
  | .haveR r true => ((t.p, r) :: c, { t with pc := .haveR r false })
  | .haveR r false => (c, { t with pc := .done (W.isMatch r t.v) })
  | .done _ => (c, t)

/-- the scheduler picks thread `i` -/
def step {R} (W : World R) (s : State R) (i : Nat) : State R :=
  match s.threads[i]? with
  | none => s
  | some t =>
    let (c', t') := stepThread W s.cache t
    { cache := c', threads := s.threads.set i t' }

def run {R} (W : World R) (s : State R) (sched : List Nat) : State R := sched.foldl (step W) s

def ThreadOK {R} (W : World R) (t : Thread R) : Prop :=
  match t.pc with
  | .start => True
  | .haveR r _ => r = W.compile t.p
  | .done b => b = W.isMatch (W.compile t.p) t.v

def CacheOK {R} (W : World R) (c : Cache R) : Prop := ∀ e ∈ c, e.2 = W.compile e.1

def Inv {R} (W : World R) (s : State R) : Prop :=
  CacheOK W s.cache ∧ ∀ t ∈ s.threads, ThreadOK W t

end GoaVerif.PatternCache
