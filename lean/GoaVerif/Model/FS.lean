/-
C09 — the output directory as goa's generators treat it.

* `render` is `codegen.File.Render` (codegen/file.go): a `SkipExist` file that exists is left alone;
  otherwise the file is opened `O_CREATE|O_APPEND`, the sections are written after whatever is
  there, and a `.go` file is then re-read and formatted as a whole.
* `cleanup` is what the generated generator does before `gen` (cmd/goa/gen.go `cleanupDirs` +
  `os.RemoveAll` in `mainT`): every sub-directory of `gen/` is removed — files directly under
  `gen/` and everything outside `gen/` stay.
* `gen` = cleanup, then render every file of the list in order; `example` = render every file of
  the example list (they carry `SkipExist`), no cleanup.

A cell carries, next to the content, the number of times it was written since it was created
(the observable stand-in for the modification time).  The Go formatter is a parameter.
-/
namespace GoaVerif.FS

abbrev Path := List String

structure Cell where
  content : String
  writes : Nat
deriving Repr, DecidableEq, BEq

/-- association list, first binding wins -/
abbrev FS := List (Path × Cell)

def get (fs : FS) (p : Path) : Option Cell := fs.lookup p

def put (fs : FS) (p : Path) (c : Cell) : FS := (p, c) :: fs

def removeWhere (fs : FS) (pred : Path → Bool) : FS := fs.filter (fun e => !pred e.1)

structure File where
  path : Path
  content : String
  skipExist : Bool
  isGo : Bool
deriving Repr

/-- what is in the file after the sections were appended (and a Go file was reformatted) -/
def finish (fmt : String → String) (f : File) (s : String) : String := if f.isGo then fmt s else s

/-- the cell `Render` leaves at `f.path`, given what was there -/
def renderCell (fmt : String → String) (f : File) : Option Cell → Cell
  | some old => if f.skipExist then old else ⟨finish fmt f (old.content ++ f.content), old.writes + 1⟩
  | none => ⟨finish fmt f f.content, 0⟩

def render (fmt : String → String) (fs : FS) (f : File) : FS :=
  put fs f.path (renderCell fmt f (get fs f.path))

/-- `gen/<dir>/<…>`: inside a sub-directory of the gen directory -/
def underGenSub : Path → Bool
  | "gen" :: _ :: _ :: _ => true
  | _ => false

def cleanup (fs : FS) : FS := removeWhere fs underGenSub

def renderAll (fmt : String → String) (files : List File) (fs : FS) : FS := files.foldl (render fmt) fs

def gen (fmt : String → String) (files : List File) (fs : FS) : FS := renderAll fmt files (cleanup fs)

def exampleCmd (fmt : String → String) (files : List File) (fs : FS) : FS := renderAll fmt files fs

/-- a user edit: the file is overwritten (created when missing) -/
def edit (fs : FS) (p : Path) (s : String) : FS :=
  put fs p (match get fs p with | some old => ⟨s, old.writes + 1⟩ | none => ⟨s, 0⟩)

/-- One invocation on the output directory. -/
inductive Op where
  | gen
  | ex
  | edit (p : Path) (s : String)
  /-- the user deletes a file -/
  | rm (p : Path)
deriving Repr

def step (fmt : String → String) (g e : List File) (fs : FS) : Op → FS
  | .gen => gen fmt g fs
  | .ex => exampleCmd fmt e fs
  | .edit p s => edit fs p s
  | .rm p => removeWhere fs (· == p)

def run (fmt : String → String) (g e : List File) (ops : List Op) (fs : FS) : FS := ops.foldl (step fmt g e) fs

end GoaVerif.FS
