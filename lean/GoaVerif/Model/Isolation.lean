/-
C20 — request handling over frozen shared state. After mounting, what handlers share (decoders,
encoders, the muxer's tables, compiled designs) is only read; a request is processed in a number
of steps, each a function of the shared state and of the request's own local state.
-/
namespace GoaVerif.Isolation

structure System (σ L : Type) where
  /-- one step of the processing of one request: reads the shared state, changes only its own -/
  stepLocal : σ → L → L

structure State (σ L : Type) where
  shared : σ
  locals : List L

def step {σ L} (sys : System σ L) (s : State σ L) (i : Nat) : State σ L :=
  match s.locals[i]? with
  | none => s
  | some l => { s with locals := s.locals.set i (sys.stepLocal s.shared l) }

def run {σ L} (sys : System σ L) (s : State σ L) (sched : List Nat) : State σ L := sched.foldl (step sys) s

/-- the same request processed alone, `n` steps -/
def solo {σ L} (sys : System σ L) (sh : σ) (l : L) : Nat → L
  | 0 => l
  | n + 1 => solo sys sh (sys.stepLocal sh l) n

end GoaVerif.Isolation
