/-
C11 — model of the DSL engine: `DSLContext.Roots` / `sortDependencies(R)` (eval/context.go)
and `RunDSL` with `runSet`/`prepareSet`/`validateSet`/`finalizeSet` (eval/eval.go), written
statement by statement (after `fix:` d5ccba5 which makes RunDSL pick up roots registered
while the DSL executes). Roots are identified by their `EvalName`.
-/
namespace GoaVerif.Eval

abbrev Name := String

/-! ### Root ordering -/

/-- `sortDependenciesR`: state = (seen, sorted). `seen[root] = true` is set only when the
    walk descends into a dependency, exactly as written. `fuel` bounds the nesting depth. -/
def sortR (dep : Name → List Name) : Nat → Name → List Name × List Name → List Name × List Name
  | 0, root, st => (st.1, st.2 ++ [root])
  | fuel + 1, root, st =>
    let st' := (dep root).foldl
      (fun st d => if st.1.contains d then st else sortR dep fuel d (root :: st.1, st.2)) st
    (st'.1, st'.2 ++ [root])

/-- `sortDependencies` -/
def sortDeps (dep : Name → List Name) (fuel : Nat) (root : Name) : List Name :=
  (sortR dep fuel root ([], [])).2

/-- the registry: registration order and `DependsOn` by name -/
structure Reg where
  roots : List Name
  dep : Name → List Name

/-- `rootDeps[name]`: flattened dependencies, reversed; `nil` for a name that was never registered -/
def flatDeps (g : Reg) (fuel : Nat) (r : Name) : List Name :=
  if g.roots.contains r then (sortDeps g.dep fuel r).reverse else []

/-- the pairwise cycle test of `Roots` -/
def hasCycle (g : Reg) (fuel : Nat) : Bool :=
  g.roots.any fun r => g.roots.any fun o =>
    r != o && (flatDeps g fuel r).contains o && (flatDeps g fuel o).contains r

def appendNew (acc : List Name) (s : List Name) : List Name :=
  s.foldl (fun acc x => if acc.contains x then acc else acc ++ [x]) acc

/-- `DSLContext.Roots` -/
def rootsOrder (g : Reg) (fuel : Nat) : Option (List Name) :=
  if hasCycle g fuel then none
  else some (g.roots.foldl (fun sorted r => appendNew sorted (sortDeps (flatDeps g fuel) fuel r)) [])

/-! ### RunDSL -/

inductive Eff where
  | err (tag : Nat)                 -- eval.ReportError
  | register (root : Name)          -- eval.Register of a root defined in the world
  | append (root : Name) (set : Nat) (expr : Nat)  -- append an expression to a live set
deriving DecidableEq, Repr

structure Expr where
  id : Nat
  dsl : Option (List Eff)   -- implements Source
  prep : Bool               -- implements Preparer
  val : Option (List Nat)   -- implements Validator: error tags it reports
  fin : Bool                -- implements Finalizer
deriving Repr

structure RootDef where
  name : Name
  deps : List Name
  sets : List (List Nat)    -- initial expression sets (expression ids)
  self : Nat                -- the root itself as an expression (prepare/validate/finalize)
deriving Repr

structure World where
  defs : List RootDef
  pool : List Expr

inductive Phase where | dsl | prepare | validate | finalize
deriving DecidableEq, Repr

structure Ev where
  phase : Phase
  root : Name
  expr : Nat
deriving DecidableEq, Repr

structure St where
  registered : List Name
  live : List (Name × List (List Nat))
  errors : List Nat
  trace : List Ev

def World.expr? (w : World) (id : Nat) : Option Expr := w.pool.find? (·.id == id)
def World.def? (w : World) (n : Name) : Option RootDef := w.defs.find? (·.name == n)
def World.depOf (w : World) (n : Name) : List Name := match w.def? n with | some d => d.deps | none => []

def St.setsOf (s : St) (n : Name) : List (List Nat) :=
  match s.live.find? (·.1 == n) with | some e => e.2 | none => []

def appendTo (sets : List (List Nat)) (i : Nat) (e : Nat) : List (List Nat) :=
  sets.mapIdx fun j l => if j == i then l ++ [e] else l

def applyEff (w : World) (s : St) : Eff → St
  | .err t => { s with errors := s.errors ++ [t] }
  | .register r =>
    if s.registered.contains r then s   -- duplicate registration is refused
    else match w.def? r with
      | some _ => { s with registered := s.registered ++ [r] }
      | none => s
  | .append r i e =>
    { s with live := s.live.map fun p => if p.1 == r then (p.1, appendTo p.2 i e) else p }

/-- `runSet` on the snapshot (a copy: appends made by the DSL are not seen) -/
def runSet (w : World) (root : Name) (s : St) (snapshot : List Nat) : St :=
  snapshot.foldl (fun s id =>
    match w.expr? id with
    | some e => match e.dsl with
      | some effs => effs.foldl (applyEff w) { s with trace := s.trace ++ [⟨.dsl, root, id⟩] }
      | none => s
    | none => s) s

/-- `root.WalkSets(runSet)`: set `i` is read when the walk reaches it -/
def execRoot (w : World) (root : Name) : Nat → Nat → St → St
  | 0, _, s => s
  | fuel + 1, i, s =>
    match (s.setsOf root)[i]? with
    | none => s
    | some snap => execRoot w root fuel (i + 1) (runSet w root s snap)

def maxSets : Nat := 16

def regOf (w : World) (s : St) : Reg := ⟨s.registered, w.depOf⟩

/-- the execution loop of `RunDSL`: `roots` is the list built so far, `start` the first root
    not yet executed. Returns none on a dependency cycle discovered on the way. -/
def execLoop (w : World) (ofuel : Nat) : Nat → List Name → Nat → St → Option (St × List Name)
  | 0, roots, _, s => some (s, roots)
  | fuel + 1, roots, start, s =>
    if start ≥ roots.length then some (s, roots) else
    let s' := (roots.drop start).foldl (fun s r => execRoot w r maxSets 0 s) s
    match rootsOrder (regOf w s') ofuel with
    | none => none
    | some all => execLoop w ofuel fuel (appendNew roots all) roots.length s'

def visit (w : World) (ph : Phase) (root : Name) (s : St) (id : Nat) : St :=
  match w.expr? id with
  | none => s
  | some e =>
    match ph with
    | .prepare => if e.prep then { s with trace := s.trace ++ [⟨ph, root, id⟩] } else s
    | .validate => match e.val with
      | some errs => { s with trace := s.trace ++ [⟨ph, root, id⟩], errors := s.errors ++ errs }
      | none => s
    | .finalize => if e.fin then { s with trace := s.trace ++ [⟨ph, root, id⟩] } else s
    | .dsl => s

/-- `prepareSet(ExpressionSet{root}); root.WalkSets(prepareSet)` for every root, in order -/
def phase (w : World) (ph : Phase) (roots : List Name) (s : St) : St :=
  roots.foldl (fun s r =>
    let s := match w.def? r with | some d => visit w ph r s d.self | none => s
    (s.setsOf r).foldl (fun s set => set.foldl (visit w ph r) s) s) s

inductive Result where
  | cycle
  | errors (tags : List Nat)
  | ok
deriving DecidableEq, Repr

/-- outcome of the execution phase -/
inductive ExecOut where
  | cycle (trace : List Ev)    -- `Roots()` reported a dependency cycle (before or during execution)
  | empty                      -- no root
  | done (s : St)              -- every DSL ran; `s.errors` are the execution errors

/-- the execution phase of `RunDSL` for the initially registered roots `init` -/
def execStage (w : World) (init : List Name) (ofuel : Nat) : ExecOut :=
  -- every defined root owns its (live) expression sets, registered or not: a root that is
  -- only reachable through `DependsOn` is walked too
  let live := w.defs.map fun d => (d.name, d.sets)
  let s0 : St := ⟨init, live, [], []⟩
  match rootsOrder (regOf w s0) ofuel with
  | none => .cycle []
  | some roots =>
    if roots.isEmpty then .empty else
    match execLoop w ofuel 101 roots 0 s0 with
    | none => .cycle []
    | some (s1, _) => .done s1

/-- prepare and validate, over the complete dependency-ordered list of roots -/
def checkStage (w : World) (roots : List Name) (s1 : St) : St :=
  phase w .validate roots (phase w .prepare roots s1)

/-- `RunDSL` -/
def runDSL (w : World) (init : List Name) (ofuel : Nat) : Result × List Ev :=
  match execStage w init ofuel with
  | .cycle tr => (.cycle, tr)
  | .empty => (.ok, [])
  | .done s1 =>
    if !s1.errors.isEmpty then (.errors s1.errors, s1.trace) else
    match rootsOrder (regOf w s1) ofuel with
    | none => (.cycle, s1.trace)
    | some roots =>
      let s2 := checkStage w roots s1
      if !s2.errors.isEmpty then (.errors s2.errors, s2.trace) else
      (.ok, (phase w .finalize roots s2).trace)

end GoaVerif.Eval
