/-
C04 — specification of the design's validations: what it means for a value to satisfy an
attribute (`violations`), written from the meaning of the DSL keywords, not from the code
generator. Numbers are exact rationals `num / den` (the generators only emit dyadic
rationals); format and pattern verdicts are oracle bits carried by the string value
(the runtime validators themselves are the subject of C17).
-/
namespace GoaVerif.Validation

/-- an exact rational with positive denominator -/
structure Rat' where
  num : Int
  den : Nat
deriving Repr, DecidableEq

def Rat'.le (a b : Rat') : Bool := decide (a.num * b.den ≤ b.num * a.den)
def Rat'.lt (a b : Rat') : Bool := decide (a.num * b.den < b.num * a.den)
def Rat'.beq (a b : Rat') : Bool := decide (a.num * b.den = b.num * a.den)

inductive Val where
  | absent
  | bool (b : Bool)
  | num (r : Rat')
  /-- `fmtOk` / `patOk`: verdict of the format / pattern named by the attribute on this string -/
  | str (s : String) (fmtOk patOk : Bool)
  | bytes (len : Nat)
  | arr (vs : List Val)
  | map (kvs : List (Val × Val))
  | obj (fields : List (String × Val))
deriving Repr

structure Rules where
  enumNums : List Rat' := []
  enumStrs : List String := []
  hasEnum : Bool := false
  format : Bool := false
  pattern : Bool := false
  min : Option Rat' := none
  max : Option Rat' := none
  exMin : Option Rat' := none
  exMax : Option Rat' := none
  minLen : Option Nat := none
  maxLen : Option Nat := none
deriving Repr

inductive Kind where
  | boolean | number (integer : Bool) (lo hi : Option Int) | string | bytes
deriving Repr

inductive Att where
  | prim (k : Kind) (r : Rules)
  | arr (r : Rules) (elem : Att)
  | map (r : Rules) (key elem : Att)
  | obj (fields : List (String × Bool × Att))   -- name, required, attribute
deriving Repr

inductive Viol where
  | invalidFieldType | missingField | invalidEnumValue | invalidFormat | invalidPattern
  | invalidRange | invalidLength
deriving Repr, DecidableEq

def Viol.name : Viol → String
  | .invalidFieldType => "invalid_field_type" | .missingField => "missing_field"
  | .invalidEnumValue => "invalid_enum_value" | .invalidFormat => "invalid_format"
  | .invalidPattern => "invalid_pattern" | .invalidRange => "invalid_range"
  | .invalidLength => "invalid_length"

def lengthViol (r : Rules) (n : Nat) : List Viol :=
  (match r.minLen with | some m => if n < m then [Viol.invalidLength] else [] | none => []) ++
  (match r.maxLen with | some m => if n > m then [Viol.invalidLength] else [] | none => [])

def rangeViol (r : Rules) (x : Rat') : List Viol :=
  (match r.min with | some m => if x.lt m then [Viol.invalidRange] else [] | none => []) ++
  (match r.max with | some m => if m.lt x then [Viol.invalidRange] else [] | none => []) ++
  (match r.exMin with | some m => if x.le m then [Viol.invalidRange] else [] | none => []) ++
  (match r.exMax with | some m => if m.le x then [Viol.invalidRange] else [] | none => [])

/-- the rules a present value breaks; `fuel` bounds the nesting depth of the value -/
def violations : Nat → Att → Val → List Viol
  | 0, _, _ => []
  | _, _, .absent => []
  | _, .prim .boolean _, .bool _ => []
  | _, .prim (.number isInt lo hi) r, .num x =>
    let typeOk := (!isInt || x.den == 1) &&
      (match lo with | some l => decide (l * x.den ≤ x.num) | none => true) &&
      (match hi with | some h => decide (x.num ≤ h * x.den) | none => true)
    if !typeOk then [.invalidFieldType] else
    (if r.hasEnum && !(r.enumNums.any (·.beq x)) then [.invalidEnumValue] else []) ++ rangeViol r x
  | _, .prim .string r, .str s fmtOk patOk =>
    (if r.hasEnum && !(r.enumStrs.contains s) then [.invalidEnumValue] else []) ++
    (if r.format && !fmtOk then [.invalidFormat] else []) ++
    (if r.pattern && !patOk then [.invalidPattern] else []) ++
    lengthViol r s.length
  | _, .prim .bytes r, .bytes n => lengthViol r n
  | fuel + 1, .arr r elem, .arr vs =>
    lengthViol r vs.length ++ vs.flatMap (violations fuel elem)
  | fuel + 1, .map r k e, .map kvs =>
    lengthViol r kvs.length ++ kvs.flatMap fun kv => violations fuel k kv.1 ++ violations fuel e kv.2
  | fuel + 1, .obj fields, .obj vals =>
    fields.flatMap fun f =>
      match vals.find? (fun p => p.1 == f.1) with
      | some (_, .absent) | none => if f.2.1 then [.missingField] else []
      | some (_, v) => violations fuel f.2.2 v
  | _, _, _ => [.invalidFieldType]

/-- the handler skeleton of http/codegen/templates/server_handler_init.go.tpl:
    decode (type errors surface in `violations` as `invalidFieldType`), validate, and only then
    call the endpoint -/
inductive Outcome where
  | called
  | rejected (first : Viol) (all : List Viol)
deriving Repr

def handle (fuel : Nat) (payload : Att) (v : Val) : Outcome :=
  match violations fuel payload v with
  | [] => .called
  | x :: xs => .rejected x (x :: xs)

end GoaVerif.Validation
