/-
C19 — model of the request-ID and trace middlewares (middleware/, http/middleware/,
grpc/middleware/) and of `ResponseCapture`.
Identifiers are byte strings (`List UInt8`) because the limit truncates *bytes*.
Fresh identifiers come from an explicit supply; theorems quantify over all supplies.
-/
namespace GoaVerif.Middleware

abbrev Bytes := List UInt8

/-! ### Request ID -/

structure RIDOpts where
  use : Bool := false
  header : String := ""
  limit : Int := 0
deriving DecidableEq, Repr

inductive RIDOpt where
  | useReqID (f : Bool)      -- UseRequestIDOption / UseXRequestIDHeaderOption / …MetadataOption
  | header (name : String)   -- RequestIDHeaderOption
  | limit (n : Int)          -- RequestIDLimitOption / XRequestHeaderLimitOption
deriving DecidableEq, Repr

/-- one option function applied to the options struct (as written: `useReqID` also resets
    the header name) -/
def applyOpt (o : RIDOpts) : RIDOpt → RIDOpts
  | .useReqID f => { o with header := "X-Request-Id", use := f }
  | .header n => { o with header := n, use := true }
  | .limit n => { o with limit := n }

/-- `NewRequestIDOptions` -/
def newOpts (l : List RIDOpt) : RIDOpts := l.foldl applyOpt {}

/-- `GenerateRequestID`: `ctxID` is the value under `RequestIDKey` already in the context
    (if any), `fresh` the value `shortID()` would return. -/
def generateRequestID (o : RIDOpts) (ctxID : Option Bytes) (fresh : Bytes) : Bytes :=
  let id : Bytes :=
    if o.use then
      match ctxID with
      | some i => if o.limit > 0 ∧ (i.length : Int) > o.limit then i.take o.limit.toNat else i
      | none => []
    else []
  if id = [] then fresh else id

/-- The transport part shared by the HTTP middleware and the gRPC interceptors: an inbound
    header/metadata value (`""` when absent) replaces the context value when trusted. -/
def inboundCtx (o : RIDOpts) (hdr : Bytes) (ctxID : Option Bytes) : Option Bytes :=
  if o.use ∧ hdr ≠ [] then some hdr else ctxID

/-- Request ID seen by the wrapped handler. For HTTP `hdr` is the value of the configured
    header, for gRPC the first `x-request-id` metadata value. -/
def requestID (o : RIDOpts) (hdr : Bytes) (ctxID : Option Bytes) (fresh : Bytes) : Bytes :=
  generateRequestID o (inboundCtx o hdr ctxID) fresh

/-! ### Trace -/

structure Span where
  trace : Bytes
  span : Bytes
  parent : Option Bytes
deriving DecidableEq, Repr

/-- `http/middleware.Trace` and `grpc/middleware.withTrace` for one request.
    `hTrace`/`hParent` are the inbound header (metadata) values, `""` when absent;
    `newTrace`/`newSpan` what the ID functions would return. -/
def trace (hTrace hParent : Bytes) (discarded sampled : Bool) (newTrace newSpan : Bytes) : Option Span :=
  let traceID := if hTrace ≠ [] then hTrace else if !discarded && sampled then newTrace else []
  if traceID = [] then none
  else some ⟨traceID, newSpan, if hParent ≠ [] then some hParent else none⟩

/-- `tracedDoer.Do` / `setTrace`: the (TraceID, ParentSpanID) headers added to an outgoing
    request made under the given context. -/
def outgoing : Option Span → Bytes × Bytes
  | some s => (s.trace, s.span)
  | none => ([], [])

/-- A chain of calls: hop `k` receives the headers produced by the traced client of hop `k-1`.
    `ids k = (newTrace, newSpan)` of hop `k`; `sampled k`. Returns the context of every hop. -/
def chain (hTrace hParent : Bytes) (sampled : Nat → Bool) (ids : Nat → Bytes × Bytes) :
    Nat → Nat → List (Option Span)
  | _, 0 => []
  | k, n + 1 =>
    let s := trace hTrace hParent false (sampled k) (ids k).1 (ids k).2
    let (t, p) := outgoing s
    s :: chain t p sampled ids (k + 1) n

/-! ### Response capture -/

inductive WOp where
  | writeHeader (code : Int)
  /-- `Write(b)` with `len(b) = n`; the underlying writer accepts `acc ≤ n` bytes (net/http refuses the body after a
      204 / 304, or beyond the declared Content-Length, and returns the count it took) -/
  | write (n acc : Nat)
deriving DecidableEq, Repr

/-- the underlying `http.ResponseWriter`: status actually sent (first final WriteHeader, or 200
    at the first Write) and bytes written -/
structure Wire where
  status : Option Int := none
  bytes : Nat := 0
deriving DecidableEq, Repr

def Wire.step (w : Wire) : WOp → Wire
  | .writeHeader c => if w.status.isNone then { w with status := some c } else w
  | .write _ acc => { status := some (w.status.getD 200), bytes := w.bytes + acc }

/-- `ResponseCapture` fields (after the two `fix:` commits 629d801, 79ee204) -/
structure Capture where
  status : Int := 0
  length : Nat := 0
deriving DecidableEq, Repr

def Capture.step (c : Capture) : WOp → Capture
  | .writeHeader code => if c.status < 200 then { c with status := code } else c
  | .write _ acc => { status := if c.status = 0 then 200 else c.status, length := c.length + acc }   -- the count Write returned

end GoaVerif.Middleware
