/-
C05 / C07 — how the HTTP generators write a designed status code into Go source
(http/codegen/funcs.go statusCodeToHTTPConst): the name of a net/http constant when the table
statusCodeToConst has an entry for the code, the decimal number otherwise. The table and the values of
the net/http constants are regenerated from /repo and the Go installation (Generated/FactsStatus.lean).
-/
namespace GoaVerif.StatusConst

/-- the expression written into the generated file -/
inductive SExpr where
  | const (name : String)   -- http.<name>
  | lit (n : Nat)           -- the number itself
deriving Repr, DecidableEq

/-- statusCodeToHTTPConst over a table (a Go map literal: its keys are distinct, or the package does not compile) -/
def emit (table : List (Nat × String)) (code : Nat) : SExpr :=
  match table.lookup code with
  | some n => .const n
  | none => .lit code

/-- what the Go compiler makes of the expression, given the constants of net/http -/
def eval (env : List (String × Nat)) : SExpr → Option Nat
  | .const n => env.lookup n
  | .lit n => some n

/-- printed form -/
def SExpr.show : SExpr → String
  | .const n => "http." ++ n
  | .lit n => toString n

/-- every entry of the table names a constant whose value is the entry's key -/
def tableOK (table : List (Nat × String)) (env : List (String × Nat)) : Bool :=
  table.all fun e => env.lookup e.2 == some e.1

theorem lookup_mem {α β} [BEq α] [LawfulBEq α] (l : List (α × β)) (k : α) (v : β) (h : l.lookup k = some v) : (k, v) ∈ l := by
  induction l with
  | nil => simp [List.lookup] at h
  | cons p r ih =>
    obtain ⟨a, b⟩ := p
    by_cases hk : k == a
    · simp [List.lookup, hk] at h
      have : k = a := by simpa using hk
      subst this; subst h; simp
    · simp [List.lookup, hk] at h
      exact List.mem_cons_of_mem _ (ih h)

/-- The expression written for a designed status denotes that status, for every status code. -/
theorem emit_eval (table : List (Nat × String)) (env : List (String × Nat)) (h : tableOK table env = true) (c : Nat) :
    eval env (emit table c) = some c := by
  unfold emit
  cases hl : table.lookup c with
  | none => rfl
  | some n =>
    have hm := lookup_mem table c n hl
    have := (List.all_eq_true.mp h) (c, n) hm
    simpa [eval] using this

end GoaVerif.StatusConst
