/-
C01 (proved core) — model of `codegen.NameScope` (codegen/scope.go): `Unique`, `HashedUnique`,
`Name`. Go maps become association lists; the unbounded `for i := c; ; i++` probe of
`Unique` gets a fuel that the adequacy theorem (`probe_fresh`) shows is never exhausted.
-/
namespace GoaVerif.Scope

abbrev Counts := List (String × Nat)

def Counts.get (c : Counts) (k : String) : Option Nat :=
  match c.find? (fun e => e.1 == k) with
  | some e => some e.2
  | none => none

def Counts.keys (c : Counts) : List String := c.map (·.1)

/-- `s.counts[k]++` -/
def Counts.incr (c : Counts) (k : String) : Counts :=
  match c.get k with
  | some n => c.map fun e => if e.1 == k then (e.1, n + 1) else e
  | none => c ++ [(k, 1)]

structure Scope where
  names : List (String × String) := []   -- type hash ↦ unique name
  counts : Counts := []                  -- raw name ↦ occurrence count

def cand (name : String) (i : Nat) : String := name ++ toString (i + 1)

/-- the loop `for i := c; ; i++ { ret := name + strconv.Itoa(i+1); if !present { … return ret } }` -/
def probe (c : Counts) (name : String) : Nat → Nat → String
  | 0, i => cand name i
  | fuel + 1, i => if (c.get (cand name i)).isSome then probe c name fuel (i + 1) else cand name i

/-- `(*NameScope).Unique` -/
def unique (s : Scope) (name : String) (suffix : Option String) : Scope × String :=
  match s.counts.get name with
  | none => ({ s with counts := s.counts.incr name }, name)
  | some c =>
    match suffix with
    | some sfx =>
      match s.counts.get (name ++ sfx) with
      | none => ({ s with counts := s.counts.incr (name ++ sfx) }, name ++ sfx)
      | some c2 =>
        let ret := probe s.counts (name ++ sfx) (s.counts.length + 1) c2
        ({ s with counts := s.counts.incr ret }, ret)
    | none =>
      let ret := probe s.counts name (s.counts.length + 1) c
      ({ s with counts := s.counts.incr ret }, ret)

def lookupName (s : Scope) (hash : String) : Option String :=
  match s.names.find? (fun e => e.1 == hash) with
  | some e => some e.2
  | none => none

/-- `(*NameScope).HashedUnique` -/
def hashedUnique (s : Scope) (hash name : String) (suffix : Option String) : Scope × String :=
  match lookupName s hash with
  | some n => (s, n)
  | none =>
    let r := unique s name suffix
    ({ r.1 with names := (hash, r.2) :: r.1.names }, r.2)

/-- `(*NameScope).Name` (does not reserve anything) -/
def nameOf (s : Scope) (name : String) : String :=
  match s.counts.get name with
  | none => name
  | some i => name ++ toString (i + 1)

inductive Op where
  | unique (name : String) (suffix : Option String)
  | hashed (hash name : String) (suffix : Option String)
deriving Repr

def step (s : Scope) : Op → Scope × String
  | .unique n sfx => unique s n sfx
  | .hashed h n sfx => hashedUnique s h n sfx

/-- run a history, collecting the returned names -/
def runOps (s : Scope) : List Op → Scope × List String
  | [] => (s, [])
  | op :: ops =>
    let r := step s op
    let rest := runOps r.1 ops
    (rest.1, r.2 :: rest.2)

end GoaVerif.Scope
