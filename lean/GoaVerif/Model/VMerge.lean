/-
C04 — `ValidationExpr.Merge` (expr/attribute.go): how the validations of two levels are combined — an
alias type and the attribute that uses it (http/codegen makeHTTPType), a design attribute and its
HTTP mapping (expr/http_endpoint.go initAttrFromDesign, http/codegen withMappingValidation).
Statement by statement. Bounds are integers here (the Go fields are *float64; only their order matters).
-/
namespace GoaVerif.VMerge

structure V where
  values : Option (List String) := none   -- Enum, members as text
  format : String := ""
  pattern : String := ""
  exMin : Option Int := none
  min : Option Int := none
  exMax : Option Int := none
  max : Option Int := none
  minLen : Option Int := none
  maxLen : Option Int := none
  required : List String := []
deriving Repr, DecidableEq

/-- `if v.X == nil || (other.X != nil && *v.X > *other.X) { v.X = other.X }` -/
def pickSmaller (v o : Option Int) : Option Int :=
  match v, o with
  | none, _ => o
  | some a, some b => if a > b then some b else some a
  | some a, none => some a

/-- `if v.X == nil || (other.X != nil && *v.X < *other.X) { v.X = other.X }` -/
def pickLarger (v o : Option Int) : Option Int :=
  match v, o with
  | none, _ => o
  | some a, some b => if a < b then some b else some a
  | some a, none => some a

/-- AddRequired: names not yet listed are appended, in order -/
def addRequired (have_ : List String) : List String → List String
  | [] => have_
  | r :: rs => if have_.contains r then addRequired have_ rs else addRequired (have_ ++ [r]) rs

def merge (v o : V) : V :=
  { values := if v.values.isNone then o.values else v.values
    format := if v.format == "" then o.format else v.format
    pattern := if v.pattern == "" then o.pattern else v.pattern
    exMin := pickSmaller v.exMin o.exMin
    min := pickSmaller v.min o.min
    exMax := pickSmaller v.exMax o.exMax      -- as written in /repo: `>` here, `<` for Maximum
    max := pickLarger v.max o.max
    minLen := pickSmaller v.minLen o.minLen
    maxLen := pickLarger v.maxLen o.maxLen
    required := addRequired v.required o.required }

end GoaVerif.VMerge
