import GoaVerif.Generated.TrStatus
/-
C05 — how an error returned by a service method reaches the wire and the generated client.

* `table` models `HTTPEndpointExpr.Prepare` (expr/http_endpoint.go:277-326): the endpoint's own
  HTTP error responses, then for every method error without one the service's, else the API's
  mapping of that name, then the same for the service-level errors the method did not redeclare.
* `encode` models the generated error encoder (http/codegen/templates/error_encoder.go.tpl):
  dispatch on `GoaErrorName()`, default to `goahttp.ErrorEncoder` whose status comes from
  `(*ErrorResponse).StatusCode` — that function is *translated* from /repo by gotolean (tie T1:
  `Generated.TrStatus.httpStatusCode`), not re-typed here.
* `clientName` models the generated response decoder's error dispatch (response_decoder.go.tpl):
  by status code, and by the `goa-error` header where several errors share a status.
-/
namespace GoaVerif.ErrorMap
open GoaVerif.Generated

structure HErr where
  name : String
  code : Int
deriving Repr, DecidableEq

structure Ctx where
  methodHTTP : List HErr      -- Response(name, code) inside the method's HTTP expression
  methodErrs : List String    -- Error(name) on the method
  svcErrs : List String       -- Error(name) on the service
  svcHTTP : List HErr
  apiHTTP : List HErr
deriving Repr

def lookup (name : String) (l : List HErr) : Option HErr := l.find? (·.name == name)

/-- service-level mapping first, API-level otherwise -/
def inherited (c : Ctx) (name : String) : List HErr :=
  match lookup name c.svcHTTP with
  | some h => [h]
  | none => match lookup name c.apiHTTP with
    | some h => [h]
    | none => []

/-- names claimed so far while walking the method errors (the Go code's `methodErrors` set) -/
def walkMethodErrs (c : Ctx) : List String → List String → List HErr × List String
  | [], seen => ([], seen)
  | me :: rest, seen =>
    if seen.contains me then walkMethodErrs c rest seen
    else
      let (t, seen') := walkMethodErrs c rest (me :: seen)
      (inherited c me ++ t, seen')

def table (c : Ctx) : List HErr :=
  let seen0 := c.methodHTTP.map (·.name)
  let (fromMethod, seen) := walkMethodErrs c c.methodErrs seen0
  let fromSvc := (c.svcErrs.filter (fun se => !seen.contains se)).flatMap (inherited c)
  c.methodHTTP ++ fromMethod ++ fromSvc

/-- what the service method returned, as far as the encoder can tell -/
structure Returned where
  /-- `GoaErrorName()` of the first error in the chain that has one (`errors.As`) -/
  goaName : Option String
  /-- the `*goa.ServiceError` in the chain, if any: name and flags -/
  svc : Option TrStatus.ErrorResponse
deriving Repr

structure Wire where
  status : Int
  /-- the `goa-error` header -/
  errHeader : Option String
  /-- body of the default encoder (`ErrorResponse`), `none` when the designed body is written -/
  defaultBody : Option TrStatus.ErrorResponse
deriving Repr

/-- `NewErrorResponse`: a ServiceError is copied, anything else becomes `goa.Fault` -/
def errorResponse (r : Returned) : TrStatus.ErrorResponse :=
  match r.svc with
  | some e => e
  | none => { Name := "fault", Fault := true }

def encodeDefault (r : Returned) : Wire :=
  let resp := errorResponse r
  { status := TrStatus.httpStatusCode resp, errHeader := none, defaultBody := some resp }

def encode (t : List HErr) (r : Returned) : Wire :=
  match r.goaName with
  | none => encodeDefault r
  | some n =>
    match lookup n t with
    | some h => { status := h.code, errHeader := some n, defaultBody := none }
    | none => encodeDefault r

/-- the generated client: errors grouped by status; inside a group of several, by header -/
def clientName (t : List HErr) (w : Wire) : Option String :=
  match t.filter (·.code == w.status) with
  | [] => none                      -- ErrInvalidResponse
  | [h] => some h.name
  | group => match w.errHeader with
    | some n => (lookup n group).map (·.name)
    | none => none

end GoaVerif.ErrorMap
