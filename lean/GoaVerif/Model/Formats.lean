/-
C17 — format validators.
(a) the dispatch of `goa.ValidateFormat` with the standard-library parsers as oracle
    predicates, incl. the IPv4/IPv6/IP branch as written;
(b) recognisers for goa's *own* two regular expressions, written from the regex text
    that tie T2 extracts from pkg/validation.go and pins by `rfl` (Props/C17.lean);
(c) specification recognisers (what a well-formed instance of the named format is) used
    to judge the implementation's verdicts on generated strings.
Strings are `List Char` here; the generators only emit ASCII for these formats.
-/
namespace GoaVerif.Formats

/-! ### character classes -/
def isDigit (c : Char) : Bool := '0' ≤ c && c ≤ '9'
def isAlpha (c : Char) : Bool := ('a' ≤ c && c ≤ 'z') || ('A' ≤ c && c ≤ 'Z')
def isAlnum (c : Char) : Bool := isDigit c || isAlpha c
def isHex (c : Char) : Bool := isDigit c || ('a' ≤ c && c ≤ 'f') || ('A' ≤ c && c ≤ 'F')

def digitVal (c : Char) : Nat := c.toNat - 48
def numVal (cs : List Char) : Nat := cs.foldl (fun a c => a * 10 + digitVal c) 0

/-- split on a separator character (always at least one field) -/
def splitOn (sep : Char) : List Char → List (List Char)
  | [] => [[]]
  | c :: cs =>
    if c == sep then [] :: splitOn sep cs
    else match splitOn sep cs with
      | [] => [[c]]
      | f :: fs => (c :: f) :: fs

/-! ### (a) dispatch -/

inductive Fmt where
  | date | dateTime | uuid | email | hostname | ipv4 | ipv6 | ip | uri | mac | cidr | regexp | json | rfc1123
deriving DecidableEq, Repr

def fmtOfName : String → Option Fmt
  | "date" => some .date | "date-time" => some .dateTime | "uuid" => some .uuid
  | "email" => some .email | "hostname" => some .hostname | "ipv4" => some .ipv4
  | "ipv6" => some .ipv6 | "ip" => some .ip | "uri" => some .uri | "mac" => some .mac
  | "cidr" => some .cidr | "regexp" => some .regexp | "json" => some .json
  | "rfc1123" => some .rfc1123 | _ => none

/-- the library predicates `ValidateFormat` delegates to (true = parses without error) -/
structure Oracles where
  timeDate : String → Bool
  timeRFC3339 : String → Bool
  uuid : String → Bool
  mail : String → Bool
  hostRe : String → Bool
  parseIP : String → Bool
  ipv4Re : String → Bool
  uri : String → Bool
  mac : String → Bool
  cidr : String → Bool
  regexp : String → Bool
  json : String → Bool
  rfc1123 : String → Bool

/-- the IPv4/IPv6/IP case of `ValidateFormat`, statement by statement (`err` as a Bool) -/
def ipAccepts (o : Oracles) (f : Fmt) (v : String) : Bool :=
  let err := !o.parseIP v
  let err := if f = .ipv4 then (if !o.ipv4Re v then true else err) else err
  let err := if f = .ipv6 then (if o.ipv4Re v then true else err) else err
  !err

/-- `ValidateFormat` returns nil -/
def accepts (o : Oracles) (f : Fmt) (v : String) : Bool :=
  match f with
  | .date => o.timeDate v | .dateTime => o.timeRFC3339 v | .uuid => o.uuid v | .email => o.mail v
  | .hostname => o.hostRe v
  | .ipv4 | .ipv6 | .ip => ipAccepts o f v
  | .uri => o.uri v | .mac => o.mac v | .cidr => o.cidr v | .regexp => o.regexp v
  | .json => o.json v | .rfc1123 => o.rfc1123 v

/-- `ValidateFormat` on a format *name*: unknown names are an error, never accepted -/
def validateFormat (o : Oracles) (name : String) (v : String) : Bool :=
  match fmtOfName name with
  | some f => accepts o f v
  | none => false

/-! ### (b) goa's own regular expressions -/

/-- source text the recognisers below were written from (pinned against T2's extraction) -/
def hostnameRegexText : String := "^[[:alnum:]][[:alnum:]\\-]{0,61}[[:alnum:]]|[[:alpha:]]$"
def ipv4RegexText : String := "^(?:[0-9]{1,3}\\.){3}[0-9]{1,3}$"

def isAlnumDash (c : Char) : Bool := isAlnum c || c == '-'

/-- can `[[:alnum:]\-]{0,k}[[:alnum:]]` match a prefix of `cs`? (greedy or not is irrelevant
    for a yes/no answer: try every split) -/
def midThenAlnum : Nat → List Char → Bool
  | k, c :: cs =>
    isAlnum c || (match k with
      | 0 => false
      | k + 1 => isAlnumDash c && midThenAlnum k cs)
  | _, [] => false

/-- `^[[:alnum:]][[:alnum:]\-]{0,61}[[:alnum:]]|[[:alpha:]]$` as Go's `MatchString` reads it:
    the alternation binds loosest, so this is "(anchored at the start) alnum, up to 61
    alnum-or-dash, alnum — anywhere before the end" OR "the last character is a letter". -/
def hostnameRe (cs : List Char) : Bool :=
  (match cs with
   | c :: rest => isAlnum c && midThenAlnum 61 rest
   | [] => false)
  || (match cs.getLast? with
      | some c => isAlpha c
      | none => false)

def isGroup13 (g : List Char) : Bool := 1 ≤ g.length && g.length ≤ 3 && g.all isDigit

/-- `^(?:[0-9]{1,3}\.){3}[0-9]{1,3}$` -/
def ipv4Re (cs : List Char) : Bool :=
  match splitOn '.' cs with
  | [a, b, c, d] => isGroup13 a && isGroup13 b && isGroup13 c && isGroup13 d
  | _ => false

/-! ### (c) specification recognisers -/

def isLeap (y : Nat) : Bool := (y % 4 == 0 && y % 100 != 0) || y % 400 == 0
def daysIn (y m : Nat) : Nat :=
  if m == 2 then (if isLeap y then 29 else 28)
  else if m == 4 || m == 6 || m == 9 || m == 11 then 30 else 31

/-- RFC 3339 full-date `YYYY-MM-DD` -/
def isDate (cs : List Char) : Bool :=
  match splitOn '-' cs with
  | [y, m, d] =>
    y.length == 4 && m.length == 2 && d.length == 2 && y.all isDigit && m.all isDigit && d.all isDigit &&
    1 ≤ numVal m && numVal m ≤ 12 && 1 ≤ numVal d && numVal d ≤ daysIn (numVal y) (numVal m)
  | _ => false

/-- a decimal octet without leading zeros -/
def isOctet (g : List Char) : Bool :=
  1 ≤ g.length && g.length ≤ 3 && g.all isDigit && numVal g ≤ 255 && (g.length == 1 || g.head? != some '0')

/-- dotted-quad IPv4 address -/
def isIPv4 (cs : List Char) : Bool :=
  match splitOn '.' cs with
  | [a, b, c, d] => isOctet a && isOctet b && isOctet c && isOctet d
  | _ => false

/-- IPv4 CIDR `a.b.c.d/len`, len 0–32 without leading zeros -/
def isCIDRv4 (cs : List Char) : Bool :=
  match splitOn '/' cs with
  | [ip, l] => isIPv4 ip && 1 ≤ l.length && l.length ≤ 2 && l.all isDigit && numVal l ≤ 32 &&
      (l.length == 1 || l.head? != some '0')
  | _ => false

def hexGroups (sep : Char) (n w : Nat) (cs : List Char) : Bool :=
  let gs := splitOn sep cs
  gs.length == n && gs.all (fun g => g.length == w && g.all isHex)

/-- IEEE 802 MAC-48 / EUI-64 / 20-octet InfiniBand, in the three notations `net.ParseMAC` documents -/
def isMAC (cs : List Char) : Bool :=
  hexGroups ':' 6 2 cs || hexGroups ':' 8 2 cs || hexGroups ':' 20 2 cs ||
  hexGroups '-' 6 2 cs || hexGroups '-' 8 2 cs || hexGroups '-' 20 2 cs ||
  hexGroups '.' 3 4 cs || hexGroups '.' 4 4 cs || hexGroups '.' 10 4 cs

/-- canonical 8-4-4-4-12 text with an RFC 4122 variant nibble (8, 9, a, b) -/
def isUUIDCore (cs : List Char) : Bool :=
  match splitOn '-' cs with
  | [a, b, c, d, e] =>
    a.length == 8 && b.length == 4 && c.length == 4 && d.length == 4 && e.length == 12 &&
    (a ++ b ++ c ++ d ++ e).all isHex &&
    (match d.head? with
     | some v => v == '8' || v == '9' || v == 'a' || v == 'b' || v == 'A' || v == 'B'
     | none => false)
  | _ => false

def lower (cs : List Char) : List Char := cs.map Char.toLower

/-- the four spellings goa documents for `uuid` -/
def isUUID (cs : List Char) : Bool :=
  isUUIDCore cs ||
  (cs.length == 45 && lower (cs.take 9) == "urn:uuid:".toList && isUUIDCore (cs.drop 9)) ||
  (cs.length == 38 && cs.head? == some '{' && cs.getLast? == some '}' && isUUIDCore ((cs.drop 1).take 36)) ||
  (cs.length == 32 && cs.all isHex &&
    (match cs[16]? with
     | some v => v == '8' || v == '9' || v == 'a' || v == 'b' || v == 'A' || v == 'B'
     | none => false))

def isLabel (l : List Char) : Bool :=
  1 ≤ l.length && l.length ≤ 63 && l.all isAlnumDash &&
  (match l.head?, l.getLast? with
   | some a, some b => isAlnum a && isAlnum b
   | _, _ => false)

/-- RFC 1035 / 1123 host name: dot-separated labels of letters, digits and inner hyphens,
    at most 253 characters -/
def isHostname (cs : List Char) : Bool :=
  1 ≤ cs.length && cs.length ≤ 253 && (splitOn '.' cs).all isLabel

end GoaVerif.Formats
