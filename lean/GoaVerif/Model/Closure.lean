/-
C12 — references of a design: what names what, and what "resolves" means. A design is accepted
only if every transport mapping, error response, requirement, view and tag names something
that exists (expr/http_endpoint.go Validate, expr/http_error.go, dsl/security.go Security,
expr/method.go). Names only — types and values are the business of the other properties.
-/
namespace GoaVerif.Closure

structure Method where
  name : String
  /-- attribute names of the payload / result (objects) -/
  payload : List String
  result : List String
  /-- errors declared on the method -/
  errors : List String
  /-- payload attributes named by the HTTP mapping -/
  params : List String
  headers : List String
  cookies : List String
  body : List String
  /-- result attributes named by responses (headers, cookies, tags) -/
  respAttrs : List String
  /-- errors given an HTTP response on the method -/
  httpErrors : List String
  /-- schemes named by the method's requirements -/
  schemes : List String
  /-- the view fixed on the result and the views its type defines -/
  resultView : Option String
  views : List String
  /-- the attributes each view of the result type selects (empty for a result that is not a result type) -/
  viewAttrs : List (String × List String) := []
deriving Repr

/-- the result attributes a response may map to a header, cookie or tag (expr/http_response.go
    `resultAttributeType`): with the view fixed on the result, the attributes of that view; otherwise the
    attributes of the result that EVERY view of its type selects -/
def respUsable (m : Method) : List String :=
  match m.resultView with
  | some v =>
    match m.viewAttrs.lookup v with
    | some attrs => attrs
    | none => if m.viewAttrs.isEmpty then m.result else []
  | none => m.result.filter fun a => m.viewAttrs.all fun va => va.2.contains a

structure Service where
  name : String
  errors : List String
  httpErrors : List String
  schemes : List String
  methods : List Method
deriving Repr

/-- an attribute of result type that fixes the view it is rendered with (`Attribute("a", RT, func() { View("v") })`,
    on the declaration or inside a view): the view named and the views the target type defines -/
structure AttrView where
  owner : String
  view : String
  views : List String
deriving Repr

structure Design where
  schemes : List String
  errors : List String
  httpErrors : List String
  apiSchemes : List String
  services : List Service
  attrViews : List AttrView := []
deriving Repr

/-- a reference that does not resolve: what kind, where, which name -/
structure Dangling where
  kind : String
  owner : String
  name : String
deriving Repr, DecidableEq

def missingFrom (kind owner : String) (names within : List String) : List Dangling :=
  (names.filter fun n => !within.contains n).map fun n => ⟨kind, owner, n⟩

def danglingMethod (d : Design) (s : Service) (m : Method) : List Dangling :=
  let o := s.name ++ "." ++ m.name
  missingFrom "param" o m.params m.payload ++
  missingFrom "header" o m.headers m.payload ++
  missingFrom "cookie" o m.cookies m.payload ++
  missingFrom "body" o m.body m.payload ++
  missingFrom "response-attribute" o m.respAttrs (respUsable m) ++
  missingFrom "error-response" o m.httpErrors (m.errors ++ s.errors ++ d.errors) ++
  missingFrom "scheme" o m.schemes d.schemes ++
  (match m.resultView with
   | some v => if m.views.contains v then [] else [⟨"view", o, v⟩]
   | none => [])

def danglingService (d : Design) (s : Service) : List Dangling :=
  missingFrom "error-response" s.name s.httpErrors (s.errors ++ d.errors) ++
  missingFrom "scheme" s.name s.schemes d.schemes ++
  s.methods.flatMap (danglingMethod d s)

def danglingAttrView (av : AttrView) : List Dangling :=
  if av.views.contains av.view then [] else [⟨"attribute-view", av.owner, av.view⟩]

def dangling (d : Design) : List Dangling :=
  missingFrom "error-response" "API" d.httpErrors d.errors ++
  missingFrom "scheme" "API" d.apiSchemes d.schemes ++
  d.services.flatMap (danglingService d) ++
  d.attrViews.flatMap danglingAttrView

/-- the acceptance condition of the reference checks -/
def closed (d : Design) : Bool := (dangling d).isEmpty

end GoaVerif.Closure
