import GoaVerif.Lemmas.FS
import GoaVerif.Lemmas.TypeHash
import GoaVerif.Generated.FactsMapRange
/-!
# C09 — generation is repeatable and never clobbers examples

Part 1: the output directory (`Model/FS.lean`, validated against the real `goa` command on real
directories by `vlib/c09.py`): `gen` over any prior state leaves exactly the generated files in the
sub-directories of `gen/`, independent of what was there; it is idempotent; `example` never
modifies a file that exists; any history ending in `gen` has the same `gen/` part.

Part 2: map iteration order. Every `range` over a map in the generator packages is listed in the
regenerated table `Generated/FactsMapRange.lean` with the shape class of its body; for each
order-free class there is a lemma below saying why the class cannot observe the order, and
`sites_accounted` (by `decide` over the regenerated table) says every site is in such a class or
on the reviewed list.
-/
namespace GoaVerif.Props.C09
open GoaVerif GoaVerif.FS

/-! ## Part 1 — the output directory -/

/-- `gen` does not touch anything outside the sub-directories of `gen/` (given that it writes
    only there — an obligation checked on the real file list in every run). -/
theorem gen_frame (fmt : String → String) (files : List File) (fs : FS) (p : Path)
    (hg : ∀ f ∈ files, underGenSub f.path = true) (hp : underGenSub p = false) :
    get (gen fmt files fs) p = get fs p := by
  unfold gen
  rw [get_renderAll_frame fmt files _ p (fun f hf e => by rw [← e, hg f hf] at hp; cases hp), get_cleanup, hp]
  rfl

/-- Inside the sub-directories of `gen/` the result of `gen` does not depend on the prior state
    of the directory at all: not on earlier runs, not on stale or edited files. -/
theorem gen_state_independent (fmt : String → String) (files : List File) (fs₁ fs₂ : FS) (p : Path)
    (hp : underGenSub p = true) :
    get (gen fmt files fs₁) p = get (gen fmt files fs₂) p := by
  unfold gen
  apply get_renderAll_local
  rw [get_cleanup, get_cleanup, hp]; rfl

/-- Running `gen` over its own output reproduces that output. -/
theorem gen_idempotent (fmt : String → String) (files : List File) (fs : FS) (p : Path)
    (hg : ∀ f ∈ files, underGenSub f.path = true) :
    get (gen fmt files (gen fmt files fs)) p = get (gen fmt files fs) p := by
  cases hp : underGenSub p
  · exact gen_frame fmt files _ p hg hp
  · exact gen_state_independent fmt files _ _ p hp

/-- With pairwise distinct paths every generated file holds exactly its own rendering,
    formatted once — nothing of a previous run is appended to it. -/
theorem gen_content (fmt : String → String) (files : List File) (fs : FS) (f : File)
    (hf : f ∈ files) (hg : underGenSub f.path = true)
    (hd : files.Pairwise (fun a b => a.path ≠ b.path)) :
    get (gen fmt files fs) f.path = some ⟨finish fmt f f.content, 0⟩ := by
  unfold gen renderAll
  have key : ∀ (l : List File) (s : FS), l.Pairwise (fun a b => a.path ≠ b.path) → f ∈ l →
      get s f.path = none → get (l.foldl (render fmt) s) f.path = some ⟨finish fmt f f.content, 0⟩ := by
    intro l
    induction l with
    | nil => intro s _ h; cases h
    | cons g rest ih =>
      intro s hpw hmem hnone
      simp only [List.foldl_cons]
      rw [List.pairwise_cons] at hpw
      rcases List.mem_cons.mp hmem with rfl | hin
      · have := get_renderAll_frame fmt rest (render fmt s f) f.path (fun x hx => (hpw.1 x hx).symm)
        unfold renderAll at this
        rw [this, get_render]
        simp [hnone, renderCell]
      · apply ih _ hpw.2 hin
        rw [get_render]
        have : f.path ≠ g.path := (hpw.1 f hin).symm
        simp [this, hnone]
  apply key files _ hd hf
  rw [get_cleanup, hg]; rfl

/-- `example` never modifies a file that already exists (content and write count). -/
theorem example_preserves (fmt : String → String) (files : List File) (fs : FS) (p : Path) (c : Cell)
    (hs : ∀ f ∈ files, f.skipExist = true) (h : get fs p = some c) :
    get (exampleCmd fmt files fs) p = some c :=
  get_renderAll_skip fmt files fs p c hs h

/-- A user's edit of an example file survives any number of later `example` and `gen` runs. -/
theorem edit_survives (fmt : String → String) (g e : List File) (ops : List Op) (fs : FS) (p : Path) (c : Cell)
    (hg : ∀ f ∈ g, underGenSub f.path = true) (he : ∀ f ∈ e, f.skipExist = true)
    (hp : underGenSub p = false) (h : get fs p = some c)
    (hops : ∀ o ∈ ops, o = Op.gen ∨ o = Op.ex) :
    get (run fmt g e ops fs) p = some c := by
  unfold run
  induction ops generalizing fs with
  | nil => exact h
  | cons o rest ih =>
    simp only [List.foldl_cons]
    apply ih _ _ (fun x hx => hops x (List.mem_cons_of_mem _ hx))
    rcases hops o (List.mem_cons_self ..) with rfl | rfl
    · simp only [step]; rw [gen_frame fmt g fs p hg hp]; exact h
    · simp only [step]; exact example_preserves fmt e fs p c he h

/-- Whatever happened before (runs, edits, stale files), after a final `gen` the sub-directories
    of `gen/` hold what `gen` produces in an empty directory. -/
theorem history_gen_same (fmt : String → String) (g e : List File) (ops : List Op) (fs : FS) (p : Path)
    (hp : underGenSub p = true) :
    get (run fmt g e (ops ++ [Op.gen]) fs) p = get (gen fmt g []) p := by
  unfold run
  rw [List.foldl_append]
  simp only [List.foldl_cons, List.foldl_nil, step]
  exact gen_state_independent fmt g _ _ p hp

/-- Without the cleanup a second run appends to the first: the cleanup is what makes `gen`
    repeatable (files are opened in append mode). -/
theorem render_twice_appends (fmt : String → String) (f : File) (hs : f.skipExist = false) :
    get (render fmt (render fmt [] f) f) f.path
      = some ⟨finish fmt f (finish fmt f f.content ++ f.content), 1⟩ := by
  have h0 : get ([] : FS) f.path = none := rfl
  rw [get_render, get_render]
  simp [renderCell, hs, h0]

/-! ### Non-vacuity -/
def gfile : File := ⟨["gen", "calc", "service.go"], "package calc", false, true⟩
def efile : File := ⟨["calc.go"], "package api", true, true⟩
example : underGenSub gfile.path = true ∧ underGenSub efile.path = false := by decide
example : get (gen id [gfile] [(["gen", "calc", "stale.go"], ⟨"x", 3⟩), (["calc.go"], ⟨"mine", 2⟩)]) ["gen", "calc", "stale.go"] = none := by decide
example : get (run id [gfile] [efile] [.ex, .edit ["calc.go"] "mine", .ex, .gen] []) ["calc.go"] = some ⟨"mine", 1⟩ := by decide
example : get (run id [gfile] [efile] [.gen, .gen] []) gfile.path = some ⟨"package calc", 0⟩ := by decide

/-! ## Part 2 — map iteration order -/

/-- `sortedAfter`: the loop only collects entries and the collection is sorted before use — any
    two iteration orders of a map (distinct keys) give the same sorted list. -/
theorem sortedAfter_order_indep {β : Type} (o₁ o₂ : List (String × β)) (hp : o₁.Perm o₂)
    (hd : (o₁.map (·.1)).Nodup) :
    TypeHash.isort (fun a b => decide (a.1 ≤ b.1)) o₁ = TypeHash.isort (fun a b => decide (a.1 ≤ b.1)) o₂ :=
  TypeHash.isort_perm_eq o₁ o₂ hp hd

/-- a finite map as a function, and a keyed store -/
def upd {β : Type} (m : String → Option β) (k : String) (v : β) : String → Option β :=
  fun q => if q = k then some v else m q

theorem upd_comm {β : Type} (m : String → Option β) (k₁ k₂ : String) (v₁ v₂ : β) (h : k₁ ≠ k₂) :
    upd (upd m k₁ v₁) k₂ v₂ = upd (upd m k₂ v₂) k₁ v₁ := by
  funext q
  unfold upd
  by_cases h1 : q = k₁ <;> by_cases h2 : q = k₂
  · subst h1; subst h2; exact absurd rfl h
  · subst h1; simp [h]
  · subst h2; simp [Ne.symm h]
  · simp [h1, h2]

theorem nodup_key_eq {β : Type} : ∀ (l : List (String × β)), (l.map (·.1)).Nodup →
    ∀ a ∈ l, ∀ b ∈ l, a.1 = b.1 → a = b
  | [], _, a, ha, _, _, _ => by cases ha
  | x :: xs, hd, a, ha, b, hb, hab => by
    rw [List.map_cons, List.nodup_cons] at hd
    rcases List.mem_cons.mp ha with rfl | ha' <;> rcases List.mem_cons.mp hb with rfl | hb'
    · rfl
    · exact absurd (List.mem_map.mpr ⟨b, hb', hab.symm⟩) hd.1
    · exact absurd (List.mem_map.mpr ⟨a, ha', hab⟩) hd.1
    · exact nodup_key_eq xs hd.2 a ha' b hb' hab

/-- `keyedWrite` / `perEntry`: the loop stores one value per entry under the entry's own key
    (the value may be any function `g` of the entry). The resulting table is the same for every
    iteration order. -/
theorem keyedWrite_order_indep {β γ : Type} (g : String × β → γ) (m : String → Option γ)
    (o₁ o₂ : List (String × β)) (hp : o₁.Perm o₂) (hd : (o₁.map (·.1)).Nodup) :
    o₁.foldl (fun acc e => upd acc e.1 (g e)) m = o₂.foldl (fun acc e => upd acc e.1 (g e)) m := by
  apply List.Perm.foldl_eq' hp
  intro x hx y hy z
  by_cases h : x.1 = y.1
  · have := nodup_key_eq o₁ hd x hx y hy h
    subst this; rfl
  · exact upd_comm z x.1 y.1 (g x) (g y) h

/-- `exists`: the loop only reports whether some entry satisfies a condition. -/
theorem exists_order_indep {α : Type} (c : α → Bool) (o₁ o₂ : List α) (hp : o₁.Perm o₂) :
    o₁.any c = o₂.any c := by
  apply Bool.eq_iff_iff.mpr
  simp only [List.any_eq_true]
  exact ⟨fun ⟨x, hx, h⟩ => ⟨x, hp.subset hx, h⟩, fun ⟨x, hx, h⟩ => ⟨x, hp.symm.subset hx, h⟩⟩

/-- `commutative`: the loop only adds to counters. -/
theorem commutative_order_indep {α : Type} (w : α → Nat) (o₁ o₂ : List α) (hp : o₁.Perm o₂) (n : Nat) :
    o₁.foldl (fun acc e => acc + w e) n = o₂.foldl (fun acc e => acc + w e) n := by
  apply List.Perm.foldl_eq' hp
  intro x _ y _ z
  omega

/-- `firstMatch` is **not** order-free in general: the value of the first matching entry is
    returned, so two matching entries make the result depend on the order. -/
theorem firstMatch_order_dependent :
    ∃ (o₁ o₂ : List (String × String)), o₁.Perm o₂ ∧
      (o₁.find? (fun e => e.1 == "openapi:summary" || e.1 == "swagger:summary")).map (·.2)
        ≠ (o₂.find? (fun e => e.1 == "openapi:summary" || e.1 == "swagger:summary")).map (·.2) :=
  ⟨[("openapi:summary", "a"), ("swagger:summary", "b")], [("swagger:summary", "b"), ("openapi:summary", "a")],
   List.Perm.swap .., by decide⟩

/-- with at most one matching entry it is -/
theorem firstMatch_unique_order_indep {α : Type} (c : α → Bool) (o₁ o₂ : List α) (hp : o₁.Perm o₂)
    (hu : ∀ a ∈ o₁, ∀ b ∈ o₁, c a = true → c b = true → a = b) :
    o₁.find? c = o₂.find? c := by
  cases h1 : o₁.find? c with
  | none =>
    symm; rw [List.find?_eq_none] at h1 ⊢
    exact fun x hx => h1 x (hp.symm.subset hx)
  | some a =>
    have ha := List.mem_of_find?_eq_some h1
    have hca := List.find?_some h1
    cases h2 : o₂.find? c with
    | none =>
      rw [List.find?_eq_none] at h2
      exact absurd hca (h2 a (hp.subset ha))
    | some b =>
      have hb := hp.symm.subset (List.mem_of_find?_eq_some h2)
      have hcb := List.find?_some h2
      rw [hu a ha b hb hca hcb]

/-! ### the regenerated site table -/
open GoaVerif.Generated.FactsMapRange

def orderFree (cls : String) : Bool :=
  cls == "sortedAfter" || cls == "keyedWrite" || cls == "perEntry" || cls == "exists" || cls == "commutative"

/-- Sites whose body is none of the order-free shapes, reviewed by hand (package, function, ranged
    expression — no line numbers), each with the reason it cannot make the output depend on the
    iteration order. (The summary look-ups that ranged over metadata with two alias keys were a
    genuine order dependence: repaired in /repo, see `firstMatch_order_dependent`.) -/
def reviewed : List (String × String × String × String) := [
  ("codegen", "SnakeCase", "toLower", "the keys are two fixed acronyms that do not overlap; each replacement commutes with the other"),
  ("codegen", "safelyGetMetaTypeImports", "uniqueImports", "import specs; the header section sorts/regroups imports when the file is formatted"),
  ("codegen/generator", "Generate", "written", "fills a slice by index; sort.Strings(outputs) follows"),
  ("codegen/service", "ConvertFile", "ppm", "import specs; sorted when the file is formatted"),
  ("codegen/service", "Data.initUserTypeImports", "importsByPath", "import specs; sorted when the file is formatted (comment in the source says so)"),
  ("codegen/service", "Data.initUserTypeImports", "m.ErrorLocs", "calls initLoc per entry, which stores under the entry's own import path"),
  ("eval", "DSLContext.Roots", "rootDeps", "cycle check only: decides whether an error is returned, the order of roots comes from the registration slice (C11)"),
  ("expr", "AttributeExpr.debug", "a.Meta", "debug printing, not used by any generator"),
  ("expr", "httpRequestBody", "defaultRequestHeaderAttributes(a)", "removes each listed attribute from the body object; removals of distinct names commute"),
  ("expr", "MappedAttributeExpr.Delete", "ma.reverseMap", "deletes the entry whose value is the given name; values are unique (reverse of an injective map)"),
  ("expr", "MetaExpr.Dup", "m", "stores a copy under the entry's own key (keyed write behind a nil test)"),
  ("expr", "MetaExpr.Merge", "src", "per key: appends the missing values of that key to the same key of the receiver; keys do not interact"),
  ("expr", "MapVal.ToMap", "m", "stores the converted value under the entry's own key (keyed write behind a type switch)"),
  ("http/codegen", "extractCookies", "a.Meta", "each recognised key assigns its own field of the cookie data"),
  ("http/codegen/openapi", "propertiesFromDefs", "definitions", "stores a reference schema under the entry's own key"),
  ("http/codegen/openapi", "Schema.Merge", "other.Properties", "stores under the entry's own key when absent"),
  ("http/codegen/openapi/v2", "NewV2", "openapi.Definitions", "clears two fields of the entry's own schema and stores it under its own key"),
  ("http/codegen/openapi/v3", "buildFileServerOperation", "meta", "assigns from the single key openapi:operationId"),
  ("http/codegen/openapi/v3", "buildOperation", "meta", "setOperationIDFormat: assigns from the single key openapi:operationId"),
  ("http/codegen/openapi/v3", "responseFromExpr", "cookies", "runs only when the map has exactly one entry")
]

def accounted (s : Site) : Bool :=
  orderFree s.cls || reviewed.any (fun r => r.1 == s.pkg && r.2.1 == s.fn && r.2.2.1 == s.expr)

/-- Every `range` over a map in the generator packages of the current tree is of an order-free
    shape or reviewed. A new or reshaped site breaks this theorem. -/
theorem sites_accounted : sites.all accounted = true := by decide

/-- the table is not empty (the extraction found the loops) -/
theorem sites_nonempty : 40 ≤ sites.length := by decide

end GoaVerif.Props.C09
