import GoaVerif.Lemmas.DupHeap
import GoaVerif.Lemmas.DupEq
import GoaVerif.Lemmas.TypeHash
/-!
# C13 — structural hashes: property theorems
Model `GoaVerif.Model.TypeHash` (hand-written from expr/hasher.go, separator constants from
tie T2, tie T3 `rtexpr` ↔ `drv_hash` on the exact hash strings, all 8 flag combinations).
Copy independence (`Dup`): heap model `GoaVerif.Model.DupHeap` with frame, freshness and independence
theorems below; on the implementation a reflective pointer-disjointness oracle and mutation scripts
(rtexpr) report which mutable cells copy and original share.
-/
namespace GoaVerif.Props.C13
open GoaVerif.TypeHash

def setNode (g : Graph) (n : Nat) (x : Node) : Graph := { g with nodes := g.nodes.set n x }
def setAtt (g : Graph) (a : Nat) (x : Attr) : Graph := { g with atts := g.atts.set a x }

private theorem agree_setNode (g : Graph) (n : Nat) (x y : Node) (hx : g.nodes[n]? = some x)
    (hxy : x.norm = y.norm) : Agree g (setNode g n y) := by
  refine ⟨?_, fun _ => rfl, fun _ => rfl, fun _ _ => rfl⟩
  intro k
  simp only [setNode, List.getElem?_set]
  by_cases hk : n = k
  · subst hk
    obtain ⟨hlt, hget⟩ := List.getElem?_eq_some_iff.mp hx
    simp [hlt, hget, hxy]
  · simp [hk]

/-- **Attribute order does not matter.** Declaring the attributes of an object in another
    order (names distinct) leaves the hash unchanged — from every root, for all flags. -/
theorem hash_perm_object (g : Graph) (f : Flags) (n : Nat) (fields fields' : List (String × Nat))
    (hn : g.nodes[n]? = some (.obj fields)) (hp : fields.Perm fields')
    (hd : (fields.map (·.1)).Nodup) (fuel root : Nat) :
    hashOf (setNode g n (.obj fields')) f fuel root = hashOf g f fuel root := by
  unfold hashOf
  rw [← hash_congr g _ f (agree_setNode g n _ _ hn (by simp [Node.norm, sortByName_perm _ _ hp hd]))]

/-- **Union alternatives order does not matter** (after `fix:` c1e42f3). -/
theorem hash_perm_union (g : Graph) (f : Flags) (n : Nat) (name : String) (vals vals' : List (String × Nat))
    (hn : g.nodes[n]? = some (.union name vals)) (hp : vals.Perm vals')
    (hd : (vals.map (·.1)).Nodup) (fuel root : Nat) :
    hashOf (setNode g n (.union name vals')) f fuel root = hashOf g f fuel root := by
  unfold hashOf
  rw [← hash_congr g _ f (agree_setNode g n _ _ hn (by simp [Node.norm, sortByName_perm _ _ hp hd]))]

private theorem find_perm {β : Type} (l₁ l₂ : List (String × β)) (hp : l₁.Perm l₂)
    (hd : (l₁.map (·.1)).Nodup) (k : String) :
    l₁.find? (fun e => e.1 == k) = l₂.find? (fun e => e.1 == k) := by
  have hd2 : (l₂.map (·.1)).Nodup := (hp.map _).nodup_iff.mp hd
  cases h1 : l₁.find? (fun e => e.1 == k) with
  | none =>
    cases h2 : l₂.find? (fun e => e.1 == k) with
    | none => rfl
    | some b =>
      have hb := List.mem_of_find?_eq_some h2
      have hk := List.find?_some h2
      have := List.find?_eq_none.mp h1 b (hp.symm.subset hb)
      exact absurd hk this
  | some a =>
    have ha := List.mem_of_find?_eq_some h1
    have hka := List.find?_some h1
    cases h2 : l₂.find? (fun e => e.1 == k) with
    | none =>
      have := List.find?_eq_none.mp h2 a (hp.subset ha)
      exact absurd hka this
    | some b =>
      have hb := List.mem_of_find?_eq_some h2
      have hkb := List.find?_some h2
      simp only [beq_iff_eq] at hka hkb
      rw [nodup_key_inj l₂ hd2 a b (hp.subset ha) hb (hka.trans hkb.symm)]

/-- what the hash reads of the metadata does not depend on the order in which a Go map
    iteration happens to visit it (keys of a map are distinct) -/
theorem meta_order_indep (md md' : List (String × List String)) (hp : md.Perm md')
    (hd : (md.map (·.1)).Nodup) :
    fieldTags md = fieldTags md' ∧ ∀ nm, effName nm md = effName nm md' := by
  constructor
  · unfold fieldTags
    simp only
    have hp' := hp.filter (fun e => Generated.FactsHasher.fieldTagKeyPrefix.toList.isPrefixOf e.1.toList)
    have hd' : ((md.filter (fun e => Generated.FactsHasher.fieldTagKeyPrefix.toList.isPrefixOf e.1.toList)).map (·.1)).Nodup :=
      hd.sublist ((List.filter_sublist).map _)
    have := isort_perm_eq _ _ hp' hd'
    unfold keyLE
    rw [this]
  · intro nm
    unfold effName
    rw [find_perm md md' hp hd]

/-- **Map iteration order does not matter** (after `fix:` fbb1e69): replacing the metadata of
    an attribute by any reordering of it leaves every hash unchanged. -/
theorem hash_order_indep (g : Graph) (f : Flags) (a : Nat) (ty : Nat) (md md' : List (String × List String))
    (ha : g.atts[a]? = some ⟨ty, md⟩) (hp : md.Perm md') (hd : (md.map (·.1)).Nodup) (fuel root : Nat) :
    hashOf (setAtt g a ⟨ty, md'⟩) f fuel root = hashOf g f fuel root := by
  obtain ⟨hlt, hget⟩ := List.getElem?_eq_some_iff.mp ha
  obtain ⟨ht, hnm⟩ := meta_order_indep md md' hp hd
  have hag : Agree g (setAtt g a ⟨ty, md'⟩) := by
    refine ⟨fun _ => rfl, ?_, ?_, ?_⟩
    · intro b
      simp only [Graph.attTy, setAtt, List.getElem?_set]
      by_cases hb : a = b
      · subst hb; simp [hlt, hget]
      · simp [hb]
    · intro b
      simp only [Graph.attMeta, setAtt, List.getElem?_set]
      by_cases hb : a = b
      · subst hb; simp [hlt, hget, ht]
      · simp [hb]
    · intro nm b
      simp only [Graph.attMeta, setAtt, List.getElem?_set]
      by_cases hb : a = b
      · subst hb; simp [hlt, hget, hnm]
      · simp [hb]
  unfold hashOf
  rw [← hash_congr g _ f hag]

/-- with `ignoreFields` a user type hashes to its (effective) name only -/
theorem hash_ignore_fields (g : Graph) (n : Nat) (name : String) (a : Nat) (r : Bool) (inn it : Bool) (fuel : Nat)
    (hn : g.nodes[n]? = some (.user name a r)) :
    hashOf g ⟨true, inn, it⟩ (fuel + 1) n =
      Generated.FactsHasher.userTypePrefix ++ (if r then name else effName name (g.attMeta a)) := by
  unfold hashOf TypeHash.hash
  simp [hn]

/-! ### Known finding: equal hash does not imply structural equality (separators may occur in names) -/

def gCollide1 : Graph := ⟨[.obj [("a/string-b", 0)], .prim "string"], [⟨1, []⟩]⟩
def gCollide2 : Graph := ⟨[.obj [("a", 0), ("b", 0)], .prim "string"], [⟨1, []⟩]⟩

/-- `{"a/string-b": String}` and `{"a": String, "b": String}` have the same hash under every
    flag combination, so `Equal` holds although the types differ. -/
theorem hash_not_complete :
    ∀ f ∈ [Flags.mk false false false, ⟨false, true, true⟩, ⟨true, false, true⟩, ⟨false, false, true⟩],
      hashOf gCollide1 f 8 0 = hashOf gCollide2 f 8 0 := by
  decide +kernel

/-! ### Known finding: inside a recursive type the hash depends on sharing -/

/-- `T = { a: O, b: O }` with ONE object `O = { t: T }` used by both attributes -/
def gShared : Graph := ⟨[.user "T" 0 false, .obj [("a", 1), ("b", 2)], .obj [("t", 3)]],
                        [⟨1, []⟩, ⟨2, []⟩, ⟨2, []⟩, ⟨0, []⟩]⟩
/-- the structurally equal type with two separate objects `{ t: T }` (what `Dup` builds from `gShared`) -/
def gUnshared : Graph := ⟨[.user "T" 0 false, .obj [("a", 1), ("b", 2)], .obj [("t", 3)], .obj [("t", 4)]],
                          [⟨1, []⟩, ⟨2, []⟩, ⟨3, []⟩, ⟨0, []⟩, ⟨0, []⟩]⟩

/-- The two graphs are structurally equal (they unfold to the same infinite tree) but hash differently:
    a reference to an object still being hashed contributes the text accumulated so far, which is
    longer at the second attribute, and a shared object is hashed once. `Equal(T, Dup(T))` is false
    for the real code on this type (known finding `hash/sharing-in-cycle`). -/
theorem hash_sharing_in_cycle :
    hashOf gShared ⟨false, false, false⟩ 12 0 = "_t_T!_o_-a/_o_-t/_t_T!_o_-b/_o_-t/_t_T!_o_" ∧
    hashOf gUnshared ⟨false, false, false⟩ 12 0 = "_t_T!_o_-a/_o_-t/_t_T!_o_-b/_o_-t/_t_T!_o_-a/_o_-t/_t_T!_o_" := by
  decide +kernel

/-! ### Copies: heap model of `Dup` (Model/DupHeap.lean) -/

section dup
open GoaVerif.DupHeap

theorem dupTop_spec (fuel : Nat) (heap : List Cell) (root r : Nat) (heap' : List Cell)
    (h : dupTop fuel heap root = some (r, heap')) :
    (∀ i, i < heap.length → heap'[i]? = heap[i]?) ∧
    (heap.length ≤ r ∨ ∃ n, heap'[r]? = some (.prim n)) ∧
    (∀ j c, heap.length ≤ j → heap'[j]? = some c → ∀ p ∈ c.ptrs, heap.length ≤ p ∨ ∃ n, heap'[p]? = some (.prim n)) := by
  unfold dupTop at h
  split at h
  · rename_i r0 σ hd
    simp only [Option.some.injEq, Prod.mk.injEq] at h
    obtain ⟨rfl, rfl⟩ := h
    have hg : Good heap.length [] ⟨heap, []⟩ :=
      ⟨Nat.le_refl _, by intro p hp; simp at hp, by
        intro j c hj hget
        have : (⟨heap, []⟩ : St).heap[j]? = none := List.getElem?_eq_none hj
        rw [this] at hget; simp at hget⟩
    have s := dup_spec heap.length fuel [] .typ root ⟨heap, []⟩ r0 σ hg hd
    refine ⟨s.2.1.frame, s.2.2.1, ?_⟩
    intro j c hj hget p hp
    rcases s.1.newok j c hj hget with h | h
    · simp at h
    · exact h p hp
  · simp at h

/-- **Frame.** `Dup` never changes a cell of the heap it copies from: the original heap is a prefix of
    the heap after the copy, for every heap (cyclic or not), every root and every amount of fuel. -/
theorem dup_frame (fuel : Nat) (heap : List Cell) (root r : Nat) (heap' : List Cell)
    (h : dupTop fuel heap root = some (r, heap')) : ∀ i, i < heap.length → heap'[i]? = heap[i]? :=
  (dupTop_spec fuel heap root r heap' h).1

/-- the pointers a copy owns lead from `a` to `b` -/
inductive Reaches (heap : List Cell) : Nat → Nat → Prop where
  | refl (a : Nat) : Reaches heap a a
  | step {a b p : Nat} {c : Cell} : Reaches heap a b → heap[b]? = some c → p ∈ c.ptrs → Reaches heap a p

/-- **Freshness.** Everything reachable from the copy (through attribute, element, key, field,
    alternative, metadata and validation pointers) is a cell allocated by this `Dup`, or a primitive. -/
theorem dup_fresh (fuel : Nat) (heap : List Cell) (root r : Nat) (heap' : List Cell)
    (h : dupTop fuel heap root = some (r, heap')) (q : Nat) (hq : Reaches heap' r q) :
    heap.length ≤ q ∨ ∃ n, heap'[q]? = some (.prim n) := by
  have s := dupTop_spec fuel heap root r heap' h
  induction hq with
  | refl => exact s.2.1
  | @step b p c _ hc hp ih =>
    rcases ih with hb | ⟨n, hn⟩
    · exact s.2.2 b c hb hc p hp
    · rw [hn] at hc
      simp only [Option.some.injEq] at hc
      subst hc
      simp [Cell.ptrs] at hp

/-- **Independence.** Overwriting any non-primitive cell reachable from the copy leaves every cell of
    the original as it was before the copy: changing the copy never changes the original. -/
theorem dup_independent (fuel : Nat) (heap : List Cell) (root r : Nat) (heap' : List Cell)
    (h : dupTop fuel heap root = some (r, heap')) (q : Nat) (hq : Reaches heap' r q)
    (hnp : ∀ n, heap'[q]? ≠ some (.prim n)) (c : Cell) :
    ∀ i, i < heap.length → (heap'.set q c)[i]? = heap[i]? := by
  intro i hi
  have hfresh : heap.length ≤ q := by
    rcases dup_fresh fuel heap root r heap' h q hq with h1 | ⟨n, hn⟩
    · exact h1
    · exact absurd hn (hnp n)
  rw [List.getElem?_set_ne (by omega)]
  exact dup_frame fuel heap root r heap' h i hi

def hRec : List Cell :=
  [.user "T" 1 none, .att 2 (some 4) none, .obj [("self", 3), ("n", 5)], .att 0 none (some 7), .blob "meta", .att 6 none none,
   .prim "string", .blob "validation"]

/-- non-vacuity: a recursive type `T = { self: T, n: String }` with metadata and a validation is copied
    (8 cells become 14; the copy is rooted at address 8, refers to the primitive at 6 and to nothing else
    below 8) -/
example : dupTop 10 hRec 0 =
    some (8, hRec ++ [.user "T" 14 none, .blob "meta", .blob "validation", .att 8 none (some 10), .att 6 none none,
                      .obj [("self", 11), ("n", 12)], .att 13 (some 9) none]) := by decide

/-- **Equality.** The copy `Dup` returns is equal to the original: the tree that can be observed from the
    root of the copy — constructors, type names, attribute names, metadata and validation contents, to ANY
    depth, through cycles — is the tree observed from the original root. Hypotheses: the original heap is
    closed under its pointers, and a type name identifies one user type (the memo of `dupper` is keyed by
    the name). The `Views` of a result type are outside the observation (`views_shared`). -/
theorem dup_equal (fuel : Nat) (heap : List Cell) (root r : Nat) (heap' : List Cell)
    (hc : Closed heap) (hu : UniqueIds heap) (hroot : root < heap.length)
    (h : dupTop fuel heap root = some (r, heap')) :
    ∀ n, obs n heap' r = obs n heap root :=
  dupTop_equal heap hc hu fuel root r heap' hroot h

/-- the hypotheses hold of the recursive example, and the observation is not trivial -/
example : closedB hRec = true ∧ uniqueIdsB hRec = true := by decide
example : Closed hRec ∧ UniqueIds hRec := ⟨closed_of_closedB (by decide), uniqueIds_of_uniqueIdsB (by decide)⟩

/-- `UniqueIds` is needed: two DIFFERENT user types with one name are merged by the memo — the copy of
    the second is the copy of the first (both attributes of the copy point at cell 9, a `T` over `int`;
    the original's `b` was a `T` over `string`). -/
def hTwoNamesakes : List Cell :=
  [.obj [("a", 1), ("b", 4)], .att 2 none none, .user "T" 3 none, .att 7 none none,
   .att 5 none none, .user "T" 6 none, .att 8 none none, .prim "int", .prim "string"]
theorem namesakes_are_merged :
    uniqueIdsB hTwoNamesakes = false ∧
    dupTop 12 hTwoNamesakes 0 = some (13, hTwoNamesakes ++
      [.user "T" 10 none, .att 7 none none, .att 9 none none, .att 9 none none, .obj [("a", 11), ("b", 12)]]) := by
  constructor
  · decide
  · decide

def hViews : List Cell := [.user "R" 1 (some 3), .att 2 none none, .prim "string", .blob "views"]

/-- **Known finding (witness).** The copy of a result type keeps the address of the original's `Views`
    slice: `ResultTypeExpr.Dup` does not copy it (`dup/shared/ResultTypeExpr.Views`). -/
theorem views_shared : dupTop 5 hViews 0 = some (4, hViews ++ [.user "R" 5 (some 3), .att 2 none none]) := by decide

end dup

/-! ### Non-vacuity -/
example : hashOf ⟨[.user "T" 0 false, .obj [("b", 1), ("a", 2)], .prim "int", .arr 3],
                  [⟨1, [("struct:field:name", ["N"])]⟩, ⟨2, []⟩, ⟨3, []⟩, ⟨0, []⟩]⟩ ⟨false, false, false⟩ 12 0
    = "_t_T+struct:field:name[N]!_o_-a/_a__t_T+struct:field:name[N]!_o_-b/int" := by decide +kernel

end GoaVerif.Props.C13
