import GoaVerif.Model.ErrorMap
/-!
# C05 — declared errors reach the client as the same error; others become faults
Theorems over `Model/ErrorMap.lean`. The default status function is the gotolean translation of
`(*ErrorResponse).StatusCode` (tie T1); the table construction and the two dispatches are tied to
the generated code by execution (tie T5, `vlib/c05.py`: scripted errors through generated
servers and clients against `drv_errmap`).
-/
namespace GoaVerif.Props.C05
open GoaVerif.ErrorMap GoaVerif.Generated

theorem lookup_name {n : String} {l : List HErr} {h : HErr} (hl : lookup n l = some h) : h.name = n := by
  have := List.find?_some hl
  simpa using this

theorem lookup_mem {n : String} {l : List HErr} {h : HErr} (hl : lookup n l = some h) : h ∈ l :=
  List.mem_of_find?_eq_some hl

@[simp] theorem lookup_nil (n : String) : lookup n [] = none := rfl

theorem lookup_append (n : String) (a b : List HErr) :
    lookup n (a ++ b) = (lookup n a).or (lookup n b) := by
  simp [lookup, List.find?_append]

/-- A declared error is written with the status the design assigns to it and carries its name. -/
theorem declared_status (t : List HErr) (n : String) (h : HErr) (s : Option TrStatus.ErrorResponse)
    (hl : lookup n t = some h) :
    (encode t ⟨some n, s⟩).status = h.code ∧ (encode t ⟨some n, s⟩).errHeader = some n ∧
    (encode t ⟨some n, s⟩).defaultBody = none := by
  simp [encode, hl]

/-- The method's own `Response(name, code)` wins over service- and API-level mappings. -/
theorem method_mapping_wins (c : Ctx) (n : String) (h : HErr) (hm : lookup n c.methodHTTP = some h) :
    lookup n (table c) = some h := by
  unfold table
  simp [lookup_append, hm, Option.or]

theorem inherited_name {c : Ctx} {n : String} {h : HErr} (hh : h ∈ inherited c n) : h.name = n := by
  unfold inherited at hh
  split at hh
  · simp at hh; subst hh; exact lookup_name ‹_›
  · split at hh
    · simp at hh; subst hh; exact lookup_name ‹_›
    · simp at hh

theorem lookup_inherited_self (c : Ctx) (n : String) : lookup n (inherited c n) = (inherited c n).head? := by
  unfold inherited
  split
  · rename_i h hl; simp [lookup, lookup_name hl]
  · split
    · rename_i h hl; simp [lookup, lookup_name hl]
    · simp [lookup]

theorem lookup_inherited_other (c : Ctx) (n m : String) (hne : m ≠ n) : lookup n (inherited c m) = none := by
  unfold lookup
  rw [List.find?_eq_none]
  intro h hh
  have := inherited_name hh
  simp [this, hne]

/-- walking the method errors: a name not yet claimed gets exactly its inherited mapping -/
theorem walk_lookup (c : Ctx) (n : String) (errs seen : List String)
    (hin : n ∈ errs) (hseen : n ∉ seen) :
    lookup n (walkMethodErrs c errs seen).1 = (inherited c n).head? := by
  induction errs generalizing seen with
  | nil => simp at hin
  | cons me rest ih =>
    unfold walkMethodErrs
    by_cases hc : seen.contains me = true
    · simp only [hc, if_true]
      have hne : me ≠ n := by
        intro e; subst e; simp at hc; exact hseen hc
      have : n ∈ rest := by
        rcases List.mem_cons.mp hin with h | h
        · exact absurd h.symm hne
        · exact h
      exact ih seen this hseen
    · simp only [hc]
      by_cases he : me = n
      · subst he
        simp only [Bool.false_eq_true, if_false, lookup_append, lookup_inherited_self]
        cases hh : (inherited c me).head? with
        | some x => simp
        | none =>
          simp only [Option.none_or]
          -- nothing inherited: the name is now claimed, the rest adds nothing for it either
          have hnil : inherited c me = [] := by
            cases hi : inherited c me with
            | nil => rfl
            | cons a b => simp [hi] at hh
          -- every later entry named `me` would come from `inherited c me = []`
          have : ∀ (errs seen : List String), lookup me (walkMethodErrs c errs seen).1 = none := by
            intro errs
            induction errs with
            | nil => intro seen; simp [walkMethodErrs, lookup]
            | cons a r ihr =>
              intro seen
              unfold walkMethodErrs
              split
              · exact ihr seen
              · simp only [lookup_append]
                by_cases ha : a = me
                · subst ha; simp [hnil, ihr, lookup_nil]
                · simp [lookup_inherited_other c me a ha, ihr]
          exact this rest (me :: seen)
      · have hmem : n ∈ rest := by
          rcases List.mem_cons.mp hin with h | h
          · exact absurd h.symm he
          · exact h
        have hns : n ∉ me :: seen := by
          simp only [List.mem_cons, not_or]; exact ⟨fun e => he e.symm, hseen⟩
        simp only [Bool.false_eq_true, if_false, lookup_append, lookup_inherited_other c n me he, Option.none_or]
        exact ih (me :: seen) hmem hns

/-- A method error without its own response uses the service's mapping of that name, else the API's. -/
theorem method_error_inherits (c : Ctx) (n : String) (h : HErr) (hin : n ∈ c.methodErrs)
    (hown : n ∉ c.methodHTTP.map (·.name)) (hinh : (inherited c n).head? = some h) :
    lookup n (table c) = some h := by
  unfold table
  have h1 : lookup n c.methodHTTP = none := by
    unfold lookup; rw [List.find?_eq_none]; intro x hx
    simp only [beq_iff_eq]
    intro e; apply hown; rw [← e]; exact List.mem_map_of_mem hx
  have h2 := walk_lookup c n c.methodErrs (c.methodHTTP.map (·.name)) hin hown
  simp [lookup_append, h1, h2, hinh, Option.or]

/-- the service mapping is preferred to the API mapping -/
theorem service_before_api (c : Ctx) (n : String) (h : HErr) (hs : lookup n c.svcHTTP = some h) :
    (inherited c n).head? = some h := by
  simp [inherited, hs]

theorem api_when_no_service (c : Ctx) (n : String) (hs : lookup n c.svcHTTP = none) :
    (inherited c n).head? = lookup n c.apiHTTP := by
  unfold inherited
  simp only [hs]
  cases lookup n c.apiHTTP <;> simp

/-- An error that is not a goa error at all becomes an internal server fault. -/
theorem undeclared_plain (t : List HErr) :
    encode t ⟨none, none⟩ = { status := 500, errHeader := none, defaultBody := some { Name := "fault", Fault := true } } := by
  simp [encode, encodeDefault, errorResponse, TrStatus.httpStatusCode, Id.run]
  rfl

/-- A goa service error the design does not declare gets the status its flags imply. -/
theorem undeclared_service (t : List HErr) (n : String) (e : TrStatus.ErrorResponse) (hl : lookup n t = none) :
    encode t ⟨some n, some e⟩ = { status := TrStatus.httpStatusCode e, errHeader := none, defaultBody := some e } := by
  simp [encode, hl, encodeDefault, errorResponse]

theorem default_status_table (e : TrStatus.ErrorResponse) (hn : e.Name ≠ "unsupported_media_type") :
    TrStatus.httpStatusCode e =
      if e.Fault then 500 else if e.Timeout then (if e.Temporary then 504 else 408)
      else if e.Temporary then 503 else 400 := by
  unfold TrStatus.httpStatusCode
  simp only [Id.run, beq_iff_eq, hn, if_false]
  cases e.Fault <;> cases e.Timeout <;> cases e.Temporary <;> rfl

/-- The generated client attributes the response to the error the server encoded: by status,
    and by the goa-error header where several errors share the status. -/
theorem client_roundtrip (t : List HErr) (h : HErr) (s : Option TrStatus.ErrorResponse)
    (hl : lookup h.name t = some h) :
    clientName t (encode t ⟨some h.name, s⟩) = some h.name := by
  have hmem : h ∈ t := lookup_mem hl
  simp only [encode, hl, clientName]
  have hg : h ∈ t.filter (·.code == h.code) := by simp [hmem]
  split
  · rename_i heq; rw [heq] at hg; simp at hg
  · rename_i x heq; rw [heq] at hg; simp at hg; rw [← hg]
  · rename_i group _ _
    have : ∃ x, lookup h.name (t.filter (·.code == h.code)) = some x := by
      unfold lookup
      cases hf : List.find? (fun x => x.name == h.name) (t.filter (·.code == h.code)) with
      | some x => exact ⟨x, rfl⟩
      | none =>
        rw [List.find?_eq_none] at hf
        have := hf h hg
        simp at this
    obtain ⟨x, hx⟩ := this
    simp [hx, lookup_name hx]

/-- A status no declared error uses is reported as an invalid response, never as a declared error. -/
theorem client_unknown_status (t : List HErr) (w : Wire) (hno : ∀ h ∈ t, h.code ≠ w.status) :
    clientName t w = none := by
  have : t.filter (·.code == w.status) = [] := by
    rw [List.filter_eq_nil_iff]; intro h hh; simp [hno h hh]
  simp [clientName, this]

/-! ### Non-vacuity -/
def exCtx : Ctx :=
  { methodHTTP := [⟨"not_found", 404⟩, ⟨"bad_thing", 409⟩, ⟨"busy", 409⟩]
    methodErrs := ["not_found", "bad_thing", "busy", "api_down"]
    svcErrs := ["svc_err"]
    svcHTTP := [⟨"svc_err", 429⟩]
    apiHTTP := [⟨"api_down", 503⟩, ⟨"svc_err", 500⟩] }

example : table exCtx = [⟨"not_found", 404⟩, ⟨"bad_thing", 409⟩, ⟨"busy", 409⟩, ⟨"api_down", 503⟩, ⟨"svc_err", 429⟩] := by decide
example : (encode (table exCtx) ⟨some "busy", none⟩).status = 409 := by decide
example : clientName (table exCtx) (encode (table exCtx) ⟨some "busy", none⟩) = some "busy" := by decide
example : clientName (table exCtx) (encode (table exCtx) ⟨some "bad_thing", none⟩) = some "bad_thing" := by decide
example : (encode (table exCtx) ⟨some "other", some { Name := "other", Timeout := true }⟩).status = 408 := by decide

end GoaVerif.Props.C05
