import GoaVerif.Model.FullPaths
import GoaVerif.Lemmas.Mux
/-!
# C16 — router: property theorems
Model `GoaVerif.Model.Mux` (hand-written; tie T3 `rtmux` ↔ `drv_mux`; chi's radix tree is
represented by the specification matcher `matchSegs`/`dispatch`, validated against the real
router by the correspondence run and otherwise trusted).
-/
namespace GoaVerif.Props.C16
open GoaVerif.Mux

/-- `url.PathUnescape ∘ url.PathEscape = id` on every byte string. -/
theorem escape_roundtrip (v : Bytes) : unescape (pathEscape v) = some v := unescape_pathEscape v

/-- An escaped value is a single path segment. -/
theorem escaped_is_one_segment (v : Bytes) : splitSlash (pathEscape v) = [pathEscape v] :=
  splitSlash_noslash _ (no_slash_pathEscape v)

private theorem pathEscape_ne_nil (v : Bytes) (h : v ≠ []) : pathEscape v ≠ [] := by
  cases v with
  | nil => exact absurd rfl h
  | cons c r =>
    unfold pathEscape
    rw [escapeWith_cons]
    by_cases hc : shouldEscapeSeg c = true <;> simp [hc, escByte]

/-- the request target built from a literal segment `l` and an escaped value -/
def target (l v : Bytes) : Bytes := slash :: (l ++ slash :: pathEscape v)

/-- what the server makes of that target: the decoded path, and `RawPath` empty exactly when
    both escaping modes agree on `v` -/
theorem setPath_target (l v : Bytes) (hl : Clean l) :
    setPath (target l v) =
      some (slash :: (l ++ slash :: v),
            if escapePath v = pathEscape v then [] else target l v) := by
  have hpre : ∀ c ∈ slash :: (l ++ [slash]), c ≠ percent := by
    intro c hc
    simp only [List.mem_cons, List.mem_append, List.not_mem_nil, or_false] at hc
    rcases hc with rfl | hc | rfl
    · exact fun h => percent_ne_slash h.symm
    · exact (hl c hc).2.1
    · exact fun h => percent_ne_slash h.symm
  have htarget : target l v = (slash :: (l ++ [slash])) ++ pathEscape v := by
    simp [target]
  have hun : unescape (target l v) = some (slash :: (l ++ slash :: v)) := by
    rw [htarget, unescape_clean_append _ _ hpre, unescape_pathEscape]
    simp
  have hesc : escapePath (slash :: (l ++ slash :: v)) = slash :: (l ++ slash :: escapePath v) := by
    have : slash :: (l ++ slash :: v) = [slash] ++ l ++ [slash] ++ v := by simp
    rw [this]
    unfold escapePath
    rw [escapeWith_append, escapeWith_append, escapeWith_append]
    have h1 : escapeWith shouldEscapePath [slash] = [slash] := by decide
    have h2 := escapePath_clean l hl
    unfold escapePath at h2
    rw [h1, h2]; simp
  unfold setPath
  rw [hun]
  simp only [hesc]
  congr 2
  by_cases he : escapePath v = pathEscape v
  · simp [he, target]
  · have : ¬ (slash :: (l ++ slash :: escapePath v)) = target l v := by
      intro h
      simp only [target, List.cons.injEq, true_and] at h
      have := List.append_cancel_left h
      exact he (List.cons.inj this).2
    simp [he, this]

private theorem dispatch_single (r : Route) (rest : Bytes) (caps : List (String × Bytes))
    (h : matchSegs r.pattern (splitSlash rest) = some caps) :
    dispatch [r] r.method (slash :: rest) = some (r, caps) := by
  have hs : (slash != slash) = false := by decide
  simp [dispatch, hs, h]

/-- **Single-segment wildcard.** A URL built by substituting the escaped value into
    `/l/{name}` is routed to that pattern and `Vars` yields exactly the original bytes —
    whatever they are (`/`, `%`, `%XX` look-alikes, `+`, spaces, non-UTF-8 …), provided the
    value is not empty. -/
theorem vars_roundtrip_param (m name : String) (l v : Bytes) (hl : Clean l) (hv : v ≠ []) :
    vars [⟨m, [.lit l, .param name], 0⟩] m (target l v) = some (0, [(name, v)]) := by
  have hls : slash ∉ l := fun h => (hl slash h).2.2 rfl
  unfold vars routePath
  rw [setPath_target l v hl]
  by_cases he : escapePath v = pathEscape v
  · -- RawPath empty: chi routes on the decoded path, nothing may be decoded again
    have hvs := no_slash_of_escapes_agree v he
    simp only [he, ↓reduceIte, Option.map_some, bne_self_eq_false, Bool.false_eq_true]
    have hm : matchSegs [.lit l, .param name] (splitSlash (l ++ slash :: v)) = some [(name, v)] := by
      rw [splitSlash_lit l v hls, splitSlash_noslash v hvs]
      have : (v == []) = false := by simpa using hv
      simp [matchSegs, this]
    rw [dispatch_single ⟨m, [.lit l, .param name], 0⟩ _ _ hm]
    simp
  · -- RawPath set: chi routes on the raw path, the captured value is unescaped once
    have hne : (target l v != []) = true := by simp [target]
    simp only [he, ↓reduceIte, Option.map_some, hne]
    have hm : matchSegs [.lit l, .param name] (splitSlash (l ++ slash :: pathEscape v))
        = some [(name, pathEscape v)] := by
      rw [splitSlash_lit l _ hls, splitSlash_noslash _ (no_slash_pathEscape v)]
      have : (pathEscape v == []) = false := by simpa using pathEscape_ne_nil v hv
      simp [matchSegs, this]
    have ht : target l v = slash :: (l ++ slash :: pathEscape v) := rfl
    rw [ht, dispatch_single ⟨m, [.lit l, .param name], 0⟩ _ _ hm]
    simp [unescapeOrRaw, unescape_pathEscape]

/-- **Trailing catch-all.** Same statement for `/l/{*name}`, for every value including the
    empty one and values containing slashes. -/
theorem vars_roundtrip_catchall (m name : String) (l v : Bytes) (hl : Clean l) :
    vars [⟨m, [.lit l, .catchAll name], 0⟩] m (target l v) = some (0, [(name, v)]) := by
  have hls : slash ∉ l := fun h => (hl slash h).2.2 rfl
  unfold vars routePath
  rw [setPath_target l v hl]
  by_cases he : escapePath v = pathEscape v
  · have hvs := no_slash_of_escapes_agree v he
    simp only [he, ↓reduceIte, Option.map_some, bne_self_eq_false, Bool.false_eq_true]
    have hm : matchSegs [.lit l, .catchAll name] (splitSlash (l ++ slash :: v)) = some [(name, v)] := by
      rw [splitSlash_lit l v hls, splitSlash_noslash v hvs]
      simp [matchSegs, joinSlash]
    rw [dispatch_single ⟨m, [.lit l, .catchAll name], 0⟩ _ _ hm]
    simp
  · have hne : (target l v != []) = true := by simp [target]
    simp only [he, ↓reduceIte, Option.map_some, hne]
    have hm : matchSegs [.lit l, .catchAll name] (splitSlash (l ++ slash :: pathEscape v))
        = some [(name, pathEscape v)] := by
      rw [splitSlash_lit l _ hls, splitSlash_noslash _ (no_slash_pathEscape v)]
      simp [matchSegs, joinSlash]
    have ht : target l v = slash :: (l ++ slash :: pathEscape v) := rfl
    rw [ht, dispatch_single ⟨m, [.lit l, .catchAll name], 0⟩ _ _ hm]
    simp [unescapeOrRaw, unescape_pathEscape]

/-- The `wildcards` table is keyed by method *and* rewritten pattern: two catch-all routes
    with the same prefix under different methods keep their own wildcard names, so `Vars`
    and `ResolvePattern` report the name that was registered for the request's method. -/
theorem wildcard_names_per_method (l : Bytes) (a b : String) :
    let routes : List Route := [⟨"GET", [.lit l, .catchAll a], 0⟩, ⟨"PUT", [.lit l, .catchAll b], 1⟩]
    wildcardName routes "GET" (chiText [.lit l, .catchAll a]) = some a ∧
    wildcardName routes "PUT" (chiText [.lit l, .catchAll b]) = some b := by
  have h1 : ("PUT" == "GET") = false := by decide
  have h2 : ("GET" == "PUT") = false := by decide
  simp [wildcardName, chiText, h1, h2]

/-! ### Witness of the repaired defect and non-vacuity -/

/-- the pinned code (before 938fc93) decoded values twice: with the value `100%25` the once-decoded
    text still contains `%25`; decoding again gives `100%` — the model after the fix returns the value -/
example : vars [⟨"GET", [.lit "users".toUTF8.toList, .param "id"], 0⟩] "GET"
    (target "users".toUTF8.toList [49, 48, 48, 37, 50, 53]) = some (0, [("id", [49, 48, 48, 37, 50, 53])]) := by
  decide +kernel

example : Clean [117, 115, 101, 114, 115] := by
  intro c hc; simp at hc; rcases hc with rfl | rfl | rfl | rfl | rfl <;> decide

example : pathEscape [97, 47, 98, 32, 37] = [97, 37, 50, 70, 98, 37, 50, 48, 37, 50, 53] := by decide

/-! ### The patterns a route is mounted under (`Model/FullPaths.lean`, tied by `rtmux fullpaths` ↔ `drv_mux fullpaths`) -/
section fullpaths
open GoaVerif.FullPaths

/-- one pattern per base path of the service, in order -/
theorem routePaths_length (r : String) (bs : List String) : (routePaths r bs).length = bs.length := by
  simp [routePaths]

/-- **every base path is decided on its own**: the pattern under one base path (trailing slash included) does not depend on
    the base paths listed before or after it -/
theorem routePaths_per_base (r : String) (bs cs : List String) :
    routePaths r (bs ++ cs) = routePaths r bs ++ routePaths r cs := by
  simp [routePaths]

theorem routePaths_nth (r : String) (bs : List String) (i : Nat) (h : i < bs.length) :
    (routePaths r bs)[i]'(by simpa [routePaths] using h) = routePath r bs[i] := by
  simp [routePaths]

-- concrete values (e.g. `routePaths "/" ["/a/", "/b", "/c/{id}"] = ["/a/", "/b", "/c/{id}"]`) are exercised by the driver: `String.splitOn`
-- does not reduce in the kernel
end fullpaths

end GoaVerif.Props.C16
