import GoaVerif.Lemmas.Errors
import GoaVerif.Generated.TrStatus
import GoaVerif.Generated.TrGrpcerr
/-!
# C18 — error merging and status mapping: property theorems

Model: `GoaVerif.Model.Errors` (hand-written, tied by correspondence T3) and
`GoaVerif.Generated.TrStatus` (regenerated from /repo by `gotolean`, tie T1).
Only statements of the property live here; helper lemmas are in `Lemmas/Errors`.
-/
namespace GoaVerif.Props.C18
open GoaVerif.Errors GoaVerif.Generated.TrStatus GoaVerif.Generated

/-- Merging with nil changes nothing (left). -/
theorem merge_nil_left (x : GoErr) : merge .nil x = x := merge_nil_left' x

/-- Merging with nil changes nothing (right). -/
theorem merge_nil_right (x : GoErr) : merge x .nil = x := merge_nil_right' x

/-- `MergeErrors` is associative on every triple of errors. -/
theorem merge_assoc (x y z : GoErr) : merge (merge x y) z = merge x (merge y z) :=
  merge_assoc' x y z

/-- Every parenthesisation of a sequence gives the left-to-right merge of its leaves. -/
theorem mergeTree_eq_list (t : Tree) : mergeTree t = mergeList t.leaves :=
  mergeTree_eq_mergeList t

/-- **Grouping independence.** Two merge trees over the same sequence of non-nil
    errors (nil leaves anywhere) produce the *same* result — every observable at once. -/
theorem assoc_obs (t₁ t₂ : Tree)
    (h : t₁.leaves.filter GoErr.nonNil = t₂.leaves.filter GoErr.nonNil) :
    mergeTree t₁ = mergeTree t₂ := by
  rw [mergeTree_eq_mergeList, mergeTree_eq_mergeList,
      ← mergeList_filter_nil t₁.leaves, ← mergeList_filter_nil t₂.leaves, h]

/-- All-nil sequences merge to nil. -/
theorem mergeTree_all_nil (t : Tree) (h : t.leaves.filter GoErr.nonNil = []) :
    mergeTree t = .nil := by
  rw [mergeTree_eq_mergeList, ← mergeList_filter_nil, h]; rfl

/-- A single non-nil error among nils is returned as is (not even converted). -/
theorem mergeTree_single (t : Tree) (x : GoErr) (h : t.leaves.filter GoErr.nonNil = [x]) :
    mergeTree t = x := by
  rw [mergeTree_eq_mergeList, ← mergeList_filter_nil, h]; simp [mergeList]

private theorem nonNil_of_filter (t : Tree) (a : GoErr) (l : List GoErr)
    (h : t.leaves.filter GoErr.nonNil = a :: l) : ∀ x ∈ a :: l, x ≠ GoErr.nil := by
  intro x hx hnil
  have : x ∈ t.leaves.filter GoErr.nonNil := h ▸ hx
  have := (List.mem_filter.mp this).2
  subst hnil; simp [GoErr.nonNil] at this

private theorem mt_eq (t : Tree) (a : GoErr) (l : List GoErr)
    (h : t.leaves.filter GoErr.nonNil = a :: l) : mergeTree t = mergeList (a :: l) := by
  rw [mergeTree_eq_mergeList, ← mergeList_filter_nil, h]

/-- Messages are concatenated in order with `"; "`. -/
theorem mergeTree_msg (t : Tree) (a : GoErr) (l : List GoErr)
    (h : t.leaves.filter GoErr.nonNil = a :: l) :
    (asSvc (mergeTree t)).msg = joinMsgs ((a :: l).map (fun x => (asSvc x).msg)) := by
  rw [mt_eq t a l h]
  have := (mergeList_view a l (nonNil_of_filter t a l h)).2.1
  simpa [List.map_map, Function.comp_def] using this

/-- The first specific (non-`"error"`) name wins. -/
theorem mergeTree_name (t : Tree) (a : GoErr) (l : List GoErr)
    (h : t.leaves.filter GoErr.nonNil = a :: l) :
    (asSvc (mergeTree t)).name = firstSpecific ((a :: l).map (fun x => (asSvc x).name)) := by
  rw [mt_eq t a l h]
  have := (mergeList_view a l (nonNil_of_filter t a l h)).1
  simpa [List.map_map, Function.comp_def] using this

/-- Each flag is the conjunction over all parts (a plain Go error counts as a non-timeout,
    non-temporary fault). -/
theorem mergeTree_flags (t : Tree) (a : GoErr) (l : List GoErr)
    (h : t.leaves.filter GoErr.nonNil = a :: l) :
    (asSvc (mergeTree t)).timeout = (a :: l).all (fun x => (asSvc x).timeout) ∧
    (asSvc (mergeTree t)).temporary = (a :: l).all (fun x => (asSvc x).temporary) ∧
    (asSvc (mergeTree t)).fault = (a :: l).all (fun x => (asSvc x).fault) := by
  rw [mt_eq t a l h]
  obtain ⟨_, _, h3, h4, h5, _⟩ := mergeList_view a l (nonNil_of_filter t a l h)
  simp only [List.all_map] at h3 h4 h5
  exact ⟨h3, h4, h5⟩

/-- History = the histories of the parts in order; for original (never merged) errors this
    is exactly one entry per error carrying its own name, field and message. -/
theorem mergeTree_hist (t : Tree) (a : GoErr) (l : List GoErr)
    (h : t.leaves.filter GoErr.nonNil = a :: l)
    (horig : ∀ x ∈ a :: l, (asSvc x).hist = []) :
    (asSvc (mergeTree t)).history = (a :: l).map (fun x => (asSvc x).snap) := by
  rw [mt_eq t a l h]
  have := (mergeList_view a l (nonNil_of_filter t a l h)).2.2.2.2.2.1
  rw [this]
  clear this
  generalize a :: l = L at horig
  induction L with
  | nil => rfl
  | cons x L ih =>
    have hx := horig x (by simp)
    simp only [List.map_cons, List.flatMap_cons]
    rw [ih (fun y hy => horig y (by simp [hy]))]
    simp [SE.history, hx]

/-- Every original cause is in the result's unwrap set, in order, none added. -/
theorem mergeTree_causes (t : Tree) (a : GoErr) (l : List GoErr)
    (h : t.leaves.filter GoErr.nonNil = a :: l) :
    (asSvc (mergeTree t)).causes = (a :: l).flatMap (fun x => (asSvc x).causes) := by
  rw [mt_eq t a l h]
  have := (mergeList_view a l (nonNil_of_filter t a l h)).2.2.2.2.2.2.1
  simpa [List.flatMap_map] using this

/-! ### Non-vacuity: a concrete tree with a nil, a plain error, a wrapped and a direct service error -/
def exA : SE := ⟨"error", none, "ma", true, true, false, [], [0]⟩
def exB : SE := ⟨"not_found", some "id", "mb", true, false, false, [], []⟩
def exT : Tree :=
  .node (.node (.leaf (.svc exA)) (.leaf .nil)) (.node (.leaf (.plain 7 "boom")) (.leaf (.wrapSvc exB)))

example : exT.leaves.filter GoErr.nonNil = [.svc exA, .plain 7 "boom", .wrapSvc exB] := by decide
example : (asSvc (mergeTree exT)).msg = "ma; boom; mb" := by decide
example : (asSvc (mergeTree exT)).name = "not_found" := by decide
example : (asSvc (mergeTree exT)).history =
    [⟨"error", none, "ma"⟩, ⟨"error", none, "boom"⟩, ⟨"not_found", some "id", "mb"⟩] := by decide
example : (asSvc (mergeTree exT)).causes = [0, 7] := by decide

/-! ### Status tables (over definitions regenerated from /repo: tie T1) -/

/-- The HTTP status heuristic is total and is exactly the documented table. -/
theorem statusCode_table (r : ErrorResponse) :
    httpStatusCode r =
      if r.Name = "unsupported_media_type" then 415
      else if r.Fault then 500
      else if r.Timeout ∧ r.Temporary then 504
      else if r.Timeout then 408
      else if r.Temporary then 503
      else 400 := by
  obtain ⟨n, i, m, tmp, tmo, f⟩ := r
  by_cases hn : n = "unsupported_media_type" <;> cases tmp <;> cases tmo <;> cases f <;>
    simp [httpStatusCode, hn, Id.run] <;> rfl

/-- Every status produced is one of the six documented codes (totality). -/
theorem statusCode_total (r : ErrorResponse) :
    httpStatusCode r ∈ [415, 500, 504, 408, 503, 400] := by
  rw [statusCode_table]
  repeat' split
  all_goals simp

/-- gRPC code selection: temporary → Unavailable(14), else timeout → DeadlineExceeded(4),
    else fault → Internal(13), else Unknown(2). -/
theorem grpcCode_table (e : TrGrpcerr.ServiceError) :
    TrGrpcerr.grpcErrorCode e =
      if e.Temporary then 14 else if e.Timeout then 4 else if e.Fault then 13 else 2 := by
  obtain ⟨n, i, m, tmo, tmp, f⟩ := e
  cases tmp <;> cases tmo <;> cases f <;> simp [TrGrpcerr.grpcErrorCode, Id.run] <;> rfl

/-- An error encoded into a gRPC status detail and decoded back has the same name,
    identifier, message and flags (struct-level part; the protobuf wire encoding of the
    detail is library code exercised by the correspondence run). -/
theorem grpc_roundtrip (e : TrGrpcerr.ServiceError) :
    TrGrpcerr.newServiceError (TrGrpcerr.newErrorResponse e) = e := by
  obtain ⟨n, i, m, tmo, tmp, f⟩ := e
  rfl

example : httpStatusCode { Name := "x", Timeout := true, Temporary := true } = 504 := by decide
example : TrGrpcerr.grpcErrorCode { Name := "x", Timeout := true, Fault := true } = 4 := by decide

end GoaVerif.Props.C18
