import GoaVerif.Model.Security
/-!
# C06 — secured methods run only after a security requirement is satisfied
Theorems over `Model/Security.lean`; tie T5 (`vlib/c06.py`): every accept/reject vector of the
callbacks on generated servers with a recording Auther, compared with `drv_sec`.
-/
namespace GoaVerif.Props.C06
open GoaVerif.Security

theorem evalReq_none_iff (accept : String → Bool) (r : Req) :
    (evalReq accept r).2 = none ↔ ∀ s ∈ r, accept s = true := by
  induction r with
  | nil => simp [evalReq]
  | cons s rest ih =>
    unfold evalReq
    by_cases h : accept s = true
    · simp [h, ih]
    · simp [h]

theorem evalReq_some (accept : String → Bool) (r : Req) (f : String) (h : (evalReq accept r).2 = some f) :
    f ∈ r ∧ accept f = false := by
  induction r with
  | nil => simp [evalReq] at h
  | cons s rest ih =>
    unfold evalReq at h
    by_cases hs : accept s = true
    · simp [hs] at h; exact ⟨List.mem_cons_of_mem _ (ih h).1, (ih h).2⟩
    · simp [hs] at h; subst h; simp at hs; exact ⟨List.mem_cons_self, hs⟩

/-- The service method runs iff the method is unsecured or some requirement has all of its
    schemes' callbacks succeed. -/
theorem runs_iff (accept : String → Bool) (reqs : List Req) :
    (endpoint accept reqs).refusedBy = none ↔ reqs = [] ∨ ∃ r ∈ reqs, ∀ s ∈ r, accept s = true := by
  unfold endpoint
  simp only
  induction reqs with
  | nil => simp [evalAll]
  | cons r rs ih =>
    cases rs with
    | nil => simp [evalAll, evalReq_none_iff]
    | cons r2 rs2 =>
      unfold evalAll
      cases h : (evalReq accept r).2 with
      | none =>
        simp only [h]
        have := (evalReq_none_iff accept r).mp h
        constructor
        · intro _; right; exact ⟨r, List.mem_cons_self, this⟩
        · intro _; trivial
      | some f =>
        simp only [h]
        have hr : ¬ ∀ s ∈ r, accept s = true := by
          intro hall; rw [(evalReq_none_iff accept r).mpr hall] at h; cases h
        rw [ih]
        constructor
        · rintro (h0 | ⟨x, hx, hall⟩)
          · cases h0
          · right; exact ⟨x, List.mem_cons_of_mem _ hx, hall⟩
        · rintro (h0 | ⟨x, hx, hall⟩)
          · cases h0
          · right
            rcases List.mem_cons.mp hx with rfl | hx'
            · exact absurd hall hr
            · exact ⟨x, hx', hall⟩

/-- When the caller is refused, the error is the one of a callback that refused, and it belongs
    to the last requirement (every requirement was tried). -/
theorem refused_by_callback (accept : String → Bool) (reqs : List Req) (f : String)
    (h : (endpoint accept reqs).refusedBy = some f) :
    accept f = false ∧ ∃ r, reqs.getLast? = some r ∧ f ∈ r := by
  unfold endpoint at h
  simp only at h
  induction reqs with
  | nil => simp [evalAll] at h
  | cons r rs ih =>
    cases rs with
    | nil =>
      simp only [evalAll] at h
      exact ⟨(evalReq_some accept r f h).2, r, by simp, (evalReq_some accept r f h).1⟩
    | cons r2 rs2 =>
      unfold evalAll at h
      cases h1 : (evalReq accept r).2 with
      | none => simp [h1] at h
      | some g =>
        simp only [h1] at h
        obtain ⟨ha, r', hl, hm⟩ := ih h
        exact ⟨ha, r', by simpa using hl, hm⟩

/-- An unsecured method runs without any callback. -/
theorem unsecured_no_callback (accept : String → Bool) : endpoint accept [] = ⟨[], none⟩ := rfl

/-- only schemes of the effective requirements are ever consulted -/
theorem calls_subset (accept : String → Bool) (reqs : List Req) :
    ∀ s ∈ (endpoint accept reqs).calls, ∃ r ∈ reqs, s ∈ r := by
  have hreq : ∀ r : Req, ∀ s ∈ (evalReq accept r).1, s ∈ r := by
    intro r
    induction r with
    | nil => simp [evalReq]
    | cons a rest ih =>
      intro s hs
      unfold evalReq at hs
      by_cases ha : accept a = true
      · simp [ha] at hs
        rcases hs with rfl | hs
        · exact List.mem_cons_self
        · exact List.mem_cons_of_mem _ (ih s hs)
      · simp [ha] at hs; subst hs; exact List.mem_cons_self
  unfold endpoint
  simp only
  induction reqs with
  | nil => simp [evalAll]
  | cons r rs ih =>
    cases rs with
    | nil => intro s hs; simp only [evalAll] at hs; exact ⟨r, List.mem_cons_self, hreq r s hs⟩
    | cons r2 rs2 =>
      intro s hs
      unfold evalAll at hs
      cases h1 : (evalReq accept r).2 with
      | none => simp only [h1] at hs; exact ⟨r, List.mem_cons_self, hreq r s hs⟩
      | some g =>
        simp only [h1, List.mem_append] at hs
        rcases hs with hs | hs
        · exact ⟨r, List.mem_cons_self, hreq r s hs⟩
        · obtain ⟨x, hx, hm⟩ := ih s hs
          exact ⟨x, List.mem_cons_of_mem _ hx, hm⟩

/-! ### inheritance -/
theorem nosecurity_overrides (m s a : List Req) : effective true m s a = [] := rfl
theorem method_overrides (m s a : List Req) (h : m ≠ []) : effective false m s a = m := by
  cases m with
  | nil => exact absurd rfl h
  | cons x xs => simp [effective]
theorem service_inherited (s a : List Req) (h : s ≠ []) : effective false [] s a = s := by
  cases s with
  | nil => exact absurd rfl h
  | cons x xs => simp [effective]
theorem api_inherited (a : List Req) : effective false [] [] a = a := by simp [effective]

/-! ### credentials -/
theorem afterFirstSpace_prefix (p t : List Char) (hp : ' ' ∉ p) : afterFirstSpace (p ++ ' ' :: t) = t := by
  induction p with
  | nil => simp [afterFirstSpace]
  | cons c cs ih =>
    have hc : c ≠ ' ' := by intro e; apply hp; simp [e]
    have : ' ' ∉ cs := by intro e; apply hp; simp [e]
    simp [afterFirstSpace, hc, ih this]

/-- a bearer token arrives with its scheme prefix removed -/
theorem credential_prefix_removed (scheme token : String) (hs : ' ' ∉ scheme.toList) :
    credential true (scheme ++ " " ++ token) = token := by
  unfold credential
  have hl : (scheme ++ " " ++ token).toList = scheme.toList ++ ' ' :: token.toList := by
    simp [String.toList_append]
  have hc : (scheme ++ " " ++ token).toList.contains ' ' = true := by
    rw [hl]; simp
  rw [hl] at hc
  simp only [Bool.true_and, hl, hc, if_true, afterFirstSpace_prefix _ _ hs]
  exact String.ofList_toList

/-- a credential without a space, and any credential outside a header, arrives unchanged -/
theorem credential_unchanged (inHeader : Bool) (sent : String) (h : inHeader = false ∨ ' ' ∉ sent.toList) :
    credential inHeader sent = sent := by
  unfold credential
  rcases h with h | h
  · simp [h]
  · simp only [List.contains_eq_mem, decide_eq_true_eq, Bool.and_eq_true]
    rw [if_neg]
    intro hh; exact h hh.2

/-! ### credential fields: each is stripped exactly once per request -/

/-- `n` stripping blocks applied to one value -/
def stripN : Nat → String → String
  | 0, v => v
  | n + 1, v => stripN n (credential true v)

theorem stripField_map (f : String) (p : Fields) :
    stripField f p = p.map (fun gv => (gv.1, if gv.1 == f then credential true gv.2 else gv.2)) := by
  induction p with
  | nil => rfl
  | cons gv rest ih => obtain ⟨g, v⟩ := gv; simp [stripField, ih]

/-- the decoder strips a field as many times as the list it is given names it -/
theorem decodeCreds_count (blocks : List String) (p : Fields) :
    decodeCreds blocks p = p.map (fun gv => (gv.1, stripN (blocks.count gv.1) gv.2)) := by
  induction blocks generalizing p with
  | nil => simp [decodeCreds, stripN]
  | cons b bs ih =>
    have h : decodeCreds (b :: bs) p = decodeCreds bs (stripField b p) := rfl
    rw [h, ih, stripField_map, List.map_map]
    apply List.map_congr_left
    intro gv _
    simp only [Function.comp, List.count_cons]
    by_cases hb : (b == gv.1) = true
    · have hb' : (gv.1 == b) = true := by
        have := eq_of_beq hb; subst this; exact beq_self_eq_true _
      rw [if_pos hb, if_pos hb']; rfl
    · have hb' : ¬ (gv.1 == b) = true := by
        intro h'; apply hb
        have := eq_of_beq h'; rw [this]; exact beq_self_eq_true _
      rw [if_neg hb, if_neg hb']; rfl

theorem appendCred_fold (fs acc : List String) (hacc : acc.Nodup) :
    (fs.foldl appendCred acc).Nodup ∧ ∀ g, g ∈ fs.foldl appendCred acc ↔ g ∈ acc ∨ g ∈ fs := by
  induction fs generalizing acc with
  | nil => simp [hacc]
  | cons f rest ih =>
    simp only [List.foldl_cons]
    by_cases hf : acc.contains f
    · have e : appendCred acc f = acc := by unfold appendCred; rw [if_pos hf]
      rw [e]
      refine ⟨(ih acc hacc).1, fun g => ?_⟩
      rw [(ih acc hacc).2 g]
      have hm : f ∈ acc := List.contains_iff_mem.mp hf
      constructor
      · rintro (h | h)
        · exact Or.inl h
        · exact Or.inr (List.mem_cons_of_mem _ h)
      · rintro (h | h)
        · exact Or.inl h
        · rcases List.mem_cons.mp h with rfl | h
          · exact Or.inl hm
          · exact Or.inr h
    · have e : appendCred acc f = acc ++ [f] := by unfold appendCred; rw [if_neg hf]
      have hm : f ∉ acc := fun h => hf (List.contains_iff_mem.mpr h)
      have hn : (acc ++ [f]).Nodup := by
        rw [List.nodup_append]
        refine ⟨hacc, by simp, ?_⟩
        intro a ha b hb
        rcases List.mem_singleton.mp hb with rfl
        intro e'; exact hm (e' ▸ ha)
      rw [e]
      refine ⟨(ih _ hn).1, fun g => ?_⟩
      rw [(ih _ hn).2 g]
      simp only [List.mem_append, List.mem_cons, List.not_mem_nil, or_false, or_assoc]

/-- the list handed to the decoder names every credential field of the endpoint's header schemes
    exactly once, however many schemes share a field -/
theorem headerSchemes_count (fs : List String) (g : String) :
    (headerSchemes fs).count g = if g ∈ fs then 1 else 0 := by
  have h := appendCred_fold fs [] List.nodup_nil
  unfold headerSchemes
  rw [List.Nodup.count h.1]
  simp [h.2 g]

/-- **each credential is handed to the callbacks with its scheme prefix removed once**: the
    decoded payload's field is `credential true <sent>` for a field some header scheme of the
    endpoint reads, and untouched otherwise — for any number of schemes sharing the field -/
theorem decodeEndpoint_once (fs : List String) (p : Fields) :
    decodeEndpoint fs p = p.map (fun gv => (gv.1, if gv.1 ∈ fs then credential true gv.2 else gv.2)) := by
  unfold decodeEndpoint
  rw [decodeCreds_count]
  apply List.map_congr_left
  intro gv _
  rw [headerSchemes_count]
  by_cases h : gv.1 ∈ fs <;> simp [h, stripN]

/-- what one block per scheme NAME did before commit ff8e971 (two JWT schemes, one `Token` field):
    the second block removes the first word of the token itself -/
theorem one_block_per_scheme_strips_twice :
    decodeCreds ["Token", "Token"] [("Token", "Bearer y z")] = [("Token", "z")] := by decide

/-! ### Non-vacuity -/
def acc (ok : List String) : String → Bool := fun s => ok.contains s
example : endpoint (acc ["jwt"]) [["basic", "jwt"], ["jwt"]] = ⟨["basic", "jwt"], none⟩ := by decide
example : endpoint (acc ["basic"]) [["basic", "jwt"], ["key"]] = ⟨["basic", "jwt", "key"], some "key"⟩ := by decide
example : endpoint (acc []) (effective true [["basic"]] [] []) = ⟨[], none⟩ := by decide
example : credential true "Bearer a.b.c" = "a.b.c" := by decide
example : credential false "a b" = "a b" := by decide
example : decodeEndpoint ["Token", "Token", "Key"] [("Token", "Bearer y z"), ("Key", "k"), ("Other", "a b")]
    = [("Token", "y z"), ("Key", "k"), ("Other", "a b")] := by decide

end GoaVerif.Props.C06
