import GoaVerif.Model.Security
/-!
# C06 — secured methods run only after a security requirement is satisfied
Theorems over `Model/Security.lean`; tie T5 (`vlib/c06.py`): every accept/reject vector of the
callbacks on generated servers with a recording Auther, compared with `drv_sec`.
-/
namespace GoaVerif.Props.C06
open GoaVerif.Security

theorem evalReq_none_iff (accept : String → Bool) (r : Req) :
    (evalReq accept r).2 = none ↔ ∀ s ∈ r, accept s = true := by
  induction r with
  | nil => simp [evalReq]
  | cons s rest ih =>
    unfold evalReq
    by_cases h : accept s = true
    · simp [h, ih]
    · simp [h]

theorem evalReq_some (accept : String → Bool) (r : Req) (f : String) (h : (evalReq accept r).2 = some f) :
    f ∈ r ∧ accept f = false := by
  induction r with
  | nil => simp [evalReq] at h
  | cons s rest ih =>
    unfold evalReq at h
    by_cases hs : accept s = true
    · simp [hs] at h; exact ⟨List.mem_cons_of_mem _ (ih h).1, (ih h).2⟩
    · simp [hs] at h; subst h; simp at hs; exact ⟨List.mem_cons_self, hs⟩

/-- The service method runs iff the method is unsecured or some requirement has all of its
    schemes' callbacks succeed. -/
theorem runs_iff (accept : String → Bool) (reqs : List Req) :
    (endpoint accept reqs).refusedBy = none ↔ reqs = [] ∨ ∃ r ∈ reqs, ∀ s ∈ r, accept s = true := by
  unfold endpoint
  simp only
  induction reqs with
  | nil => simp [evalAll]
  | cons r rs ih =>
    cases rs with
    | nil => simp [evalAll, evalReq_none_iff]
    | cons r2 rs2 =>
      unfold evalAll
      cases h : (evalReq accept r).2 with
      | none =>
        simp only [h]
        have := (evalReq_none_iff accept r).mp h
        constructor
        · intro _; right; exact ⟨r, List.mem_cons_self, this⟩
        · intro _; trivial
      | some f =>
        simp only [h]
        have hr : ¬ ∀ s ∈ r, accept s = true := by
          intro hall; rw [(evalReq_none_iff accept r).mpr hall] at h; cases h
        rw [ih]
        constructor
        · rintro (h0 | ⟨x, hx, hall⟩)
          · cases h0
          · right; exact ⟨x, List.mem_cons_of_mem _ hx, hall⟩
        · rintro (h0 | ⟨x, hx, hall⟩)
          · cases h0
          · right
            rcases List.mem_cons.mp hx with rfl | hx'
            · exact absurd hall hr
            · exact ⟨x, hx', hall⟩

/-- When the caller is refused, the error is the one of a callback that refused, and it belongs
    to the last requirement (every requirement was tried). -/
theorem refused_by_callback (accept : String → Bool) (reqs : List Req) (f : String)
    (h : (endpoint accept reqs).refusedBy = some f) :
    accept f = false ∧ ∃ r, reqs.getLast? = some r ∧ f ∈ r := by
  unfold endpoint at h
  simp only at h
  induction reqs with
  | nil => simp [evalAll] at h
  | cons r rs ih =>
    cases rs with
    | nil =>
      simp only [evalAll] at h
      exact ⟨(evalReq_some accept r f h).2, r, by simp, (evalReq_some accept r f h).1⟩
    | cons r2 rs2 =>
      unfold evalAll at h
      cases h1 : (evalReq accept r).2 with
      | none => simp [h1] at h
      | some g =>
        simp only [h1] at h
        obtain ⟨ha, r', hl, hm⟩ := ih h
        exact ⟨ha, r', by simpa using hl, hm⟩

/-- An unsecured method runs without any callback. -/
theorem unsecured_no_callback (accept : String → Bool) : endpoint accept [] = ⟨[], none⟩ := rfl

/-- only schemes of the effective requirements are ever consulted -/
theorem calls_subset (accept : String → Bool) (reqs : List Req) :
    ∀ s ∈ (endpoint accept reqs).calls, ∃ r ∈ reqs, s ∈ r := by
  have hreq : ∀ r : Req, ∀ s ∈ (evalReq accept r).1, s ∈ r := by
    intro r
    induction r with
    | nil => simp [evalReq]
    | cons a rest ih =>
      intro s hs
      unfold evalReq at hs
      by_cases ha : accept a = true
      · simp [ha] at hs
        rcases hs with rfl | hs
        · exact List.mem_cons_self
        · exact List.mem_cons_of_mem _ (ih s hs)
      · simp [ha] at hs; subst hs; exact List.mem_cons_self
  unfold endpoint
  simp only
  induction reqs with
  | nil => simp [evalAll]
  | cons r rs ih =>
    cases rs with
    | nil => intro s hs; simp only [evalAll] at hs; exact ⟨r, List.mem_cons_self, hreq r s hs⟩
    | cons r2 rs2 =>
      intro s hs
      unfold evalAll at hs
      cases h1 : (evalReq accept r).2 with
      | none => simp only [h1] at hs; exact ⟨r, List.mem_cons_self, hreq r s hs⟩
      | some g =>
        simp only [h1, List.mem_append] at hs
        rcases hs with hs | hs
        · exact ⟨r, List.mem_cons_self, hreq r s hs⟩
        · obtain ⟨x, hx, hm⟩ := ih s hs
          exact ⟨x, List.mem_cons_of_mem _ hx, hm⟩

/-! ### inheritance -/
theorem nosecurity_overrides (m s a : List Req) : effective true m s a = [] := rfl
theorem method_overrides (m s a : List Req) (h : m ≠ []) : effective false m s a = m := by
  cases m with
  | nil => exact absurd rfl h
  | cons x xs => simp [effective]
theorem service_inherited (s a : List Req) (h : s ≠ []) : effective false [] s a = s := by
  cases s with
  | nil => exact absurd rfl h
  | cons x xs => simp [effective]
theorem api_inherited (a : List Req) : effective false [] [] a = a := by simp [effective]

/-! ### credentials -/
theorem afterFirstSpace_prefix (p t : List Char) (hp : ' ' ∉ p) : afterFirstSpace (p ++ ' ' :: t) = t := by
  induction p with
  | nil => simp [afterFirstSpace]
  | cons c cs ih =>
    have hc : c ≠ ' ' := by intro e; apply hp; simp [e]
    have : ' ' ∉ cs := by intro e; apply hp; simp [e]
    simp [afterFirstSpace, hc, ih this]

/-- a bearer token arrives with its scheme prefix removed -/
theorem credential_prefix_removed (scheme token : String) (hs : ' ' ∉ scheme.toList) :
    credential true (scheme ++ " " ++ token) = token := by
  unfold credential
  have hl : (scheme ++ " " ++ token).toList = scheme.toList ++ ' ' :: token.toList := by
    simp [String.toList_append]
  have hc : (scheme ++ " " ++ token).toList.contains ' ' = true := by
    rw [hl]; simp
  rw [hl] at hc
  simp only [Bool.true_and, hl, hc, if_true, afterFirstSpace_prefix _ _ hs]
  exact String.ofList_toList

/-- a credential without a space, and any credential outside a header, arrives unchanged -/
theorem credential_unchanged (inHeader : Bool) (sent : String) (h : inHeader = false ∨ ' ' ∉ sent.toList) :
    credential inHeader sent = sent := by
  unfold credential
  rcases h with h | h
  · simp [h]
  · simp only [List.contains_eq_mem, decide_eq_true_eq, Bool.and_eq_true]
    rw [if_neg]
    intro hh; exact h hh.2

/-! ### Non-vacuity -/
def acc (ok : List String) : String → Bool := fun s => ok.contains s
example : endpoint (acc ["jwt"]) [["basic", "jwt"], ["jwt"]] = ⟨["basic", "jwt"], none⟩ := by decide
example : endpoint (acc ["basic"]) [["basic", "jwt"], ["key"]] = ⟨["basic", "jwt", "key"], some "key"⟩ := by decide
example : endpoint (acc []) (effective true [["basic"]] [] []) = ⟨[], none⟩ := by decide
example : credential true "Bearer a.b.c" = "a.b.c" := by decide
example : credential false "a b" = "a b" := by decide

end GoaVerif.Props.C06
