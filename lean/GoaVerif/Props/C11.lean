import GoaVerif.Lemmas.Eval
import GoaVerif.Lemmas.Roots
/-!
# C11 — DSL evaluation phases and root ordering: property theorems
Model `GoaVerif.Model.Eval` (hand-written; tie T3 `rteval` ↔ `drv_eval`).
-/
namespace GoaVerif.Props.C11
open GoaVerif.Eval

/-- the trace splits into execution, preparation, validation and finalization events, in
    this order: no expression enters a phase before all have completed the previous one -/
def PhaseOrdered (tr : List Ev) : Prop :=
  ∃ d p v f, tr = d ++ p ++ v ++ f ∧ (∀ e ∈ d, e.phase = .dsl) ∧ (∀ e ∈ p, e.phase = .prepare) ∧
    (∀ e ∈ v, e.phase = .validate) ∧ (∀ e ∈ f, e.phase = .finalize)

theorem execStage_trace (w : World) (init : List Name) (fuel : Nat) (s1 : St)
    (h : execStage w init fuel = .done s1) : ∀ e ∈ s1.trace, e.phase = .dsl := by
  unfold execStage at h
  simp only at h
  split at h
  · simp at h
  · split at h
    · simp at h
    · split at h
      · simp at h
      · rename_i s1' rs hl
        simp only [ExecOut.done.injEq] at h
        subst h
        obtain ⟨l, hl1, hl2⟩ := execLoop_adds w fuel 101 _ 0 _ s1' rs hl
        simp only [List.nil_append] at hl1
        rw [hl1]; exact hl2

/-- **Global phases.** Whatever the roots, their dependency graph, the registration order,
    the expression sets and what the DSLs do (report errors, register roots, append
    expressions), the callbacks happen in four global phases. -/
theorem phases_barrier (w : World) (init : List Name) (fuel : Nat) :
    PhaseOrdered (runDSL w init fuel).2 := by
  unfold runDSL
  split
  · rename_i tr h
    -- a cycle is reported before anything runs
    unfold execStage at h
    simp only at h
    split at h
    · simp only [ExecOut.cycle.injEq] at h; subst h; exact ⟨[], [], [], [], rfl, by simp, by simp, by simp, by simp⟩
    · split at h
      · simp at h
      · split at h
        · simp only [ExecOut.cycle.injEq] at h; subst h; exact ⟨[], [], [], [], rfl, by simp, by simp, by simp, by simp⟩
        · simp at h
  · exact ⟨[], [], [], [], rfl, by simp, by simp, by simp, by simp⟩
  · rename_i s1 h
    have hd := execStage_trace w init fuel s1 h
    split
    · exact ⟨s1.trace, [], [], [], by simp, hd, by simp, by simp, by simp⟩
    · split
      · exact ⟨s1.trace, [], [], [], by simp, hd, by simp, by simp, by simp⟩
      · rename_i roots _
        obtain ⟨p, hp1, hp2⟩ := phase_adds w .prepare roots s1
        obtain ⟨v, hv1, hv2⟩ := phase_adds w .validate roots (phase w .prepare roots s1)
        have h2 : (checkStage w roots s1).trace = s1.trace ++ p ++ v := by
          unfold checkStage; rw [hv1, hp1]
        by_cases hc : (!(checkStage w roots s1).errors.isEmpty) = true
        · simp only [hc, ↓reduceIte]
          exact ⟨s1.trace, p, v, [], by simp [h2], hd, hp2, hv2, by simp⟩
        · simp only [hc]
          obtain ⟨f, hf1, hf2⟩ := phase_adds w .finalize roots (checkStage w roots s1)
          exact ⟨s1.trace, p, v, f, by simp only [Bool.false_eq_true, ↓reduceIte]; rw [hf1, h2], hd, hp2, hv2, hf2⟩

/-- **Execution errors gate everything.** If any DSL reported an error, `RunDSL` returns all
    recorded errors together, in order, and no prepare/validate/finalize callback ran. -/
theorem exec_errors_gate (w : World) (init : List Name) (fuel : Nat) (s1 : St)
    (h : execStage w init fuel = .done s1) (he : s1.errors ≠ []) :
    runDSL w init fuel = (.errors s1.errors, s1.trace) ∧ ∀ e ∈ s1.trace, e.phase = .dsl := by
  refine ⟨?_, execStage_trace w init fuel s1 h⟩
  unfold runDSL
  rw [h]
  have : (!s1.errors.isEmpty) = true := by
    cases hh : s1.errors with
    | nil => exact absurd hh he
    | cons a l => rfl
  simp [this]

/-- **Finalization never runs on a design that failed.** Unless `RunDSL` succeeds, the trace
    contains no finalize event. -/
theorem finalize_only_if_ok (w : World) (init : List Name) (fuel : Nat)
    (h : (runDSL w init fuel).1 ≠ .ok) : ∀ e ∈ (runDSL w init fuel).2, e.phase ≠ .finalize := by
  have noFin : ∀ s1 roots, (∀ e ∈ s1.trace, e.phase = .dsl) →
      ∀ e ∈ (checkStage w roots s1).trace, e.phase ≠ .finalize := by
    intro s1 roots hd e he
    obtain ⟨p, hp1, hp2⟩ := phase_adds w .prepare roots s1
    obtain ⟨v, hv1, hv2⟩ := phase_adds w .validate roots (phase w .prepare roots s1)
    unfold checkStage at he
    rw [hv1, hp1] at he
    simp only [List.mem_append] at he
    rcases he with (he | he) | he
    · rw [hd e he]; decide
    · rw [hp2 e he]; decide
    · rw [hv2 e he]; decide
  unfold runDSL at h ⊢
  split
  · rename_i tr hh
    unfold execStage at hh
    simp only at hh
    split at hh
    · simp only [ExecOut.cycle.injEq] at hh; subst hh; simp
    · split at hh
      · simp at hh
      · split at hh
        · simp only [ExecOut.cycle.injEq] at hh; subst hh; simp
        · simp at hh
  · simp
  · rename_i s1 hs
    have hd := execStage_trace w init fuel s1 hs
    rw [hs] at h
    simp only at h ⊢
    split
    · intro e he; rw [hd e he]; decide
    · rename_i hne
      split
      · intro e he; rw [hd e he]; decide
      · rename_i roots hr
        by_cases hc : (!(checkStage w roots s1).errors.isEmpty) = true
        · simp only [hc, ↓reduceIte]
          exact noFin s1 roots hd
        · exfalso
          apply h
          simp only [hne, hr, hc]
          simp

/-- Validation errors are all returned together: when execution succeeded and some validator
    reported, the result is exactly the accumulated list. -/
theorem validation_errors_together (w : World) (init : List Name) (fuel : Nat) (s1 : St) (roots : List Name)
    (h : execStage w init fuel = .done s1) (he : s1.errors = [])
    (hr : rootsOrder (regOf w s1) fuel = some roots)
    (hv : (checkStage w roots s1).errors ≠ []) :
    (runDSL w init fuel).1 = .errors (checkStage w roots s1).errors := by
  unfold runDSL
  rw [h]
  have : (!(checkStage w roots s1).errors.isEmpty) = true := by
    cases hh : (checkStage w roots s1).errors with
    | nil => exact absurd hh hv
    | cons a l => rfl
  simp [he, hr, this]

/-- The order returned by `Roots` never lists a root twice. -/
theorem roots_nodup (g : Reg) (fuel : Nat) (l : List Name) (h : rootsOrder g fuel = some l) : l.Nodup := by
  unfold rootsOrder at h
  split at h
  · simp at h
  · simp only [Option.some.injEq] at h
    subst h
    suffices ∀ (rs : List Name) (acc : List Name), acc.Nodup →
        (rs.foldl (fun sorted r => appendNew sorted (sortDeps (flatDeps g fuel) fuel r)) acc).Nodup from
      this g.roots [] List.nodup_nil
    intro rs
    induction rs with
    | nil => intro acc h; exact h
    | cons r rs ih => intro acc h; exact ih _ (appendNew_nodup _ _ h)

/-- Every registered root is in the order. -/
theorem roots_complete (g : Reg) (fuel : Nat) (l : List Name) (h : rootsOrder g fuel = some l) :
    ∀ r ∈ g.roots, r ∈ l := by
  unfold rootsOrder at h
  split at h
  · simp at h
  · simp only [Option.some.injEq] at h
    subst h
    suffices ∀ (rs : List Name) (acc : List Name) (r : Name), (r ∈ acc ∨ r ∈ rs) →
        r ∈ rs.foldl (fun sorted r => appendNew sorted (sortDeps (flatDeps g fuel) fuel r)) acc from
      fun r hr => this g.roots [] r (Or.inr hr)
    intro rs
    induction rs with
    | nil => intro acc r h; simpa using h
    | cons x xs ih =>
      intro acc r h
      simp only [List.foldl_cons]
      apply ih
      rcases h with h | h
      · exact Or.inl ((appendNew_mem _ _ _).mpr (Or.inl h))
      · rcases List.mem_cons.mp h with rfl | h
        · exact Or.inl ((appendNew_mem _ _ _).mpr (Or.inr (sortR_root_mem _ _ _ _)))
        · exact Or.inr h

/-! ### Witnesses (kernel-checked by `decide`) and non-vacuity -/

def dep3 : Name → List Name := fun n => if n = "c" then ["b"] else if n = "b" then ["a"] else []

/-- a chain c → b → a registered as c, b, a comes out dependency-first -/
example : rootsOrder ⟨["c", "b", "a"], dep3⟩ 13 = some ["a", "b", "c"] := by decide
/-- two roots that depend on each other are a cycle -/
example : rootsOrder ⟨["x", "y"], fun n => if n = "x" then ["y"] else ["x"]⟩ 10 = none := by decide

/-! ### Dependency order of `Roots` -/

/-- **Topological order (every acyclic registry, every size).** Let `U` be any finite set of names
    closed under `DependsOn` that contains the registered roots, and let the recursion budget of the
    model exceed `2·|U|+1` (the real code has no budget: the bound is the nesting depth
    `sortDependenciesR` can reach, proved in `Lemmas/Roots.lean`). Whenever `Roots` returns an order `l`
    (no dependency cycle reported), every registered root `r` comes after every root it depends on,
    directly or through other roots: `l = p ++ r :: q` with the dependency in `p`. Together with
    `roots_nodup` this is the position of `r`, so "before" is unambiguous. -/
theorem roots_topo (g : Reg) (fuel : Nat) (U : List Name)
    (hU : ∀ x ∈ U, ∀ y ∈ g.dep x, y ∈ U) (hr : ∀ r ∈ g.roots, r ∈ U) (hfuel : 2 * U.length + 2 ≤ fuel)
    (l : List Name) (h : rootsOrder g fuel = some l) :
    ∀ r ∈ g.roots, ∀ d, Reach g.dep r d → d ≠ r → ∃ p q, l = p ++ r :: q ∧ d ∈ p := by
  intro r hrr d hd hne
  have hgood := rootsOrder_good g fuel U hU hr hfuel l h
  have hmem : r ∈ l := roots_complete g fuel l h r hrr
  obtain ⟨p, q, e⟩ := List.append_of_mem hmem
  refine ⟨p, q, e, ?_⟩
  have hdd : d ∈ flatDeps g fuel r := reach_mem_flatDeps g fuel U hU hr hfuel hrr hd
  unfold Good at hgood
  rw [e] at hgood
  simpa using goodAux_split (flatDeps g fuel) [] p q r hgood d hdd hne

/-- direct dependencies, the form the property is stated in -/
theorem roots_topo_direct (g : Reg) (fuel : Nat) (U : List Name)
    (hU : ∀ x ∈ U, ∀ y ∈ g.dep x, y ∈ U) (hr : ∀ r ∈ g.roots, r ∈ U) (hfuel : 2 * U.length + 2 ≤ fuel)
    (l : List Name) (h : rootsOrder g fuel = some l) :
    ∀ r ∈ g.roots, ∀ d ∈ g.dep r, d ≠ r → ∃ p q, l = p ++ r :: q ∧ d ∈ p :=
  fun r hrr d hd hne => roots_topo g fuel U hU hr hfuel l h r hrr d (.head hd (.refl d)) hne

/-- non-vacuity: a registry that meets the hypotheses (universe, fuel) and is ordered -/
example : (∀ x ∈ ["a", "b", "c"], ∀ y ∈ dep3 x, y ∈ ["a", "b", "c"]) ∧ 2 * ["a", "b", "c"].length + 2 ≤ 13 ∧
    rootsOrder ⟨["c", "b", "a"], dep3⟩ 13 = some ["a", "b", "c"] := by decide

/-- **Known finding (witness).** A root that lists itself in `DependsOn` is not reported. -/
theorem selfloop_not_reported :
    rootsOrder ⟨["x"], fun _ => ["x"]⟩ 10 = some ["x"] := by decide

def wDyn : World :=
  { defs := [⟨"r", [], [[1]], 9⟩],
    pool := [⟨1, some [.append "r" 0 2], false, none, false⟩, ⟨2, some [], true, none, true⟩, ⟨9, none, false, none, false⟩] }

/-- **Known finding (witness).** An expression appended to a set while that set executes is
    prepared and finalized but its own DSL never runs (`runSet` iterates a copy). -/
theorem appended_expr_dsl_not_run :
    (runDSL wDyn ["r"] 7).1 = .ok ∧
    (runDSL wDyn ["r"] 7).2 = [⟨.dsl, "r", 1⟩, ⟨.prepare, "r", 2⟩, ⟨.finalize, "r", 2⟩] := by decide

def wReg : World :=
  { defs := [⟨"r", [], [[1]], 8⟩, ⟨"late", ["r"], [[2]], 9⟩],
    pool := [⟨1, some [.register "late"], false, none, false⟩, ⟨2, some [], true, none, true⟩,
             ⟨8, none, false, none, false⟩, ⟨9, none, false, none, true⟩] }

/-- a root registered while the DSL executes is executed, prepared and finalized (after d5ccba5) -/
example : (runDSL wReg ["r"] 10).2 =
    [⟨.dsl, "r", 1⟩, ⟨.dsl, "late", 2⟩, ⟨.prepare, "late", 2⟩, ⟨.finalize, "late", 9⟩, ⟨.finalize, "late", 2⟩] := by decide

end GoaVerif.Props.C11
