import GoaVerif.Model.Formats
import GoaVerif.Lemmas.PatternCache
import GoaVerif.Generated.FactsValidation
/-!
# C17 — format and pattern validators: property theorems
Models: `Model/Formats.lean` (dispatch with library oracles, goa's own two regexes, spec
recognisers) and `Model/PatternCache.lean` (cache as an interleaving transition system).
Ties: T2 facts regenerated from pkg/validation.go (`Generated/FactsValidation.lean`), T3
correspondence `rtfmt` ↔ `drv_fmt`.
-/
namespace GoaVerif.Props.C17
open GoaVerif.Formats GoaVerif.PatternCache GoaVerif.Generated

/-! ### relations between the IP formats, for every behaviour of the library parsers -/

/-- An IP is an IPv4 or an IPv6 address … -/
theorem ip_iff (o : Oracles) (v : String) :
    ipAccepts o .ip v = (ipAccepts o .ipv4 v || ipAccepts o .ipv6 v) := by
  unfold ipAccepts
  cases o.parseIP v <;> cases o.ipv4Re v <;> decide

/-- … and never both. -/
theorem ip_not_both (o : Oracles) (v : String) :
    (ipAccepts o .ipv4 v && ipAccepts o .ipv6 v) = false := by
  unfold ipAccepts
  cases o.parseIP v <;> cases o.ipv4Re v <;> decide

/-- `ipv4` and `ipv6` each imply `ip`. -/
theorem ip_of_family (o : Oracles) (v : String) (f : Fmt) (hf : f = .ipv4 ∨ f = .ipv6)
    (h : ipAccepts o f v = true) : ipAccepts o .ip v = true := by
  rcases hf with rfl | rfl <;>
  · unfold ipAccepts at *
    cases hp : o.parseIP v <;> cases hr : o.ipv4Re v <;> simp_all

/-! ### the dispatch is total over exactly the named formats (tables regenerated from /repo) -/

/-- the 14 `Format*` constants are exactly the case labels of `ValidateFormat`, the switch
    has an erroring default, and the model dispatches every one of them -/
theorem format_table :
    FactsValidation.formatCases = FactsValidation.formatConstants ∧
    FactsValidation.formatDefaultErrors = true ∧
    FactsValidation.formatConstants.length = 14 ∧
    FactsValidation.formatConstants.all (fun n => (fmtOfName n).isSome) = true := by decide

/-- any other name is an error, never an acceptance -/
theorem format_unknown (o : Oracles) (name v : String) (h : fmtOfName name = none) :
    validateFormat o name v = false := by
  unfold validateFormat; rw [h]

theorem format_known (o : Oracles) (name v : String) (h : validateFormat o name v = true) :
    ∃ f, fmtOfName name = some f ∧ accepts o f v = true := by
  unfold validateFormat at h
  cases hf : fmtOfName name with
  | none => rw [hf] at h; simp at h
  | some f => rw [hf] at h; exact ⟨f, rfl, h⟩

/-! ### goa's own regular expressions -/

/-- the recognisers in `Model/Formats.lean` were written from exactly these literals -/
theorem regex_text_pinned :
    FactsValidation.hostnameRegexSrc = hostnameRegexText ∧
    FactsValidation.ipv4RegexSrc = ipv4RegexText := by decide

theorem midThenAlnum_iff (n : Nat) (l : List Char) :
    midThenAlnum n l = true ↔
      ∃ k, k ≤ n ∧ (l.take k).all isAlnumDash = true ∧ ∃ c, l[k]? = some c ∧ isAlnum c = true := by
  induction n generalizing l with
  | zero =>
    cases l with
    | nil => simp [midThenAlnum]
    | cons c cs =>
      simp only [midThenAlnum, Bool.or_false]
      constructor
      · intro h; exact ⟨0, Nat.le_refl _, by simp, c, by simp, h⟩
      · rintro ⟨k, hk, _, c', hc', ha⟩
        have : k = 0 := by omega
        subst this; simp at hc'; subst hc'; exact ha
  | succ n ih =>
    cases l with
    | nil => simp [midThenAlnum]
    | cons c cs =>
      simp only [midThenAlnum, Bool.or_eq_true, Bool.and_eq_true]
      constructor
      · rintro (h | ⟨h1, h2⟩)
        · exact ⟨0, Nat.zero_le _, by simp, c, by simp, h⟩
        · obtain ⟨k, hk, hall, c', hc', ha⟩ := (ih cs).mp h2
          exact ⟨k + 1, by omega, by simp [List.take, h1, hall], c', by simpa using hc', ha⟩
      · rintro ⟨k, hk, hall, c', hc', ha⟩
        cases k with
        | zero => left; simp at hc'; subst hc'; exact ha
        | succ k =>
          right
          simp only [List.take_succ_cons, List.all_cons, Bool.and_eq_true] at hall
          exact ⟨hall.1, (ih cs).mpr ⟨k, by omega, hall.2, c', by simpa using hc', ha⟩⟩

/-- **Exact characterisation of the hostname regex as written.** It accepts a string iff
    it *starts* with an alphanumeric, up to 61 alphanumerics or hyphens and another
    alphanumeric (whatever follows), or merely *ends* with a letter. -/
theorem hostname_regex_char (cs : List Char) :
    hostnameRe cs = true ↔
      (∃ c rest k, cs = c :: rest ∧ isAlnum c = true ∧ k ≤ 61 ∧
          (rest.take k).all isAlnumDash = true ∧ ∃ d, rest[k]? = some d ∧ isAlnum d = true) ∨
      (∃ c, cs.getLast? = some c ∧ isAlpha c = true) := by
  unfold hostnameRe
  simp only [Bool.or_eq_true]
  constructor
  · rintro (h | h)
    · left
      cases cs with
      | nil => simp at h
      | cons c rest =>
        simp only [Bool.and_eq_true] at h
        obtain ⟨k, hk, hall, d, hd, ha⟩ := (midThenAlnum_iff 61 rest).mp h.2
        exact ⟨c, rest, k, rfl, h.1, hk, hall, d, hd, ha⟩
    · right
      cases hl : cs.getLast? with
      | none => simp [hl] at h
      | some c => simp [hl] at h; exact ⟨c, rfl, h⟩
  · rintro (⟨c, rest, k, rfl, hc, hk, hall, d, hd, ha⟩ | ⟨c, hl, ha⟩)
    · left
      simp only [Bool.and_eq_true]
      exact ⟨hc, (midThenAlnum_iff 61 rest).mpr ⟨k, hk, hall, d, hd, ha⟩⟩
    · right; simp [hl, ha]

/-- …which is not the host name format: it accepts strings that are not host names and
    rejects some that are (known finding; the regex text is pinned by goa's own test). -/
theorem hostname_regex_not_spec :
    (hostnameRe "ab cd!!".toList = true ∧ isHostname "ab cd!!".toList = false) ∧
    (hostnameRe "foo_bar.com".toList = true ∧ isHostname "foo_bar.com".toList = false) ∧
    (hostnameRe "a.1".toList = false ∧ isHostname "a.1".toList = true) := by decide

/-- every dotted quad of the specification matches goa's IPv4 regex (so the `ipv4` verdict
    is decided by `net.ParseIP`, and `ipv6` rejects exactly the dotted forms) -/
theorem ipv4_spec_matches_regex (cs : List Char) (h : isIPv4 cs = true) : ipv4Re cs = true := by
  unfold isIPv4 at h
  unfold ipv4Re
  have oct : ∀ g, isOctet g = true → isGroup13 g = true := by
    intro g hg
    simp only [isOctet, Bool.and_eq_true] at hg
    simp only [isGroup13, Bool.and_eq_true]
    exact ⟨⟨hg.1.1.1.1, hg.1.1.1.2⟩, hg.1.1.2⟩
  split at h
  · rename_i a b c d heq
    simp only [Bool.and_eq_true] at h
    simp [heq, oct a h.1.1.1, oct b h.1.1.2, oct c h.1.2, oct d h.2]
  · simp at h

/-! ### the pattern cache: verdicts do not depend on history or schedule -/

/-- Under every interleaving of the atomic steps of any number of concurrent calls, the
    cache only ever maps a pattern to its own compiled form. -/
theorem pattern_cache_inv {R} (W : World R) (s : State R) (sched : List Nat) (h : Inv W s) :
    CacheOK W (run W s sched).cache := (run_inv W s sched h).1

/-- Every verdict is `match (compile p) v` of the call's own arguments, whatever calls ran
    before or run concurrently, and whatever (consistent) cache the run started from. -/
theorem pattern_verdict_pure {R} (W : World R) (s : State R) (sched : List Nat) (h : Inv W s)
    (t : Thread R) (ht : t ∈ (run W s sched).threads) (b : Bool) (hb : t.pc = .done b) :
    b = W.isMatch (W.compile t.p) t.v := by
  have := (run_inv W s sched h).2 t ht
  simpa [ThreadOK, hb] using this

/-- the calls themselves are not disturbed by the scheduler -/
theorem pattern_calls_stable {R} (W : World R) (s : State R) (sched : List Nat) :
    (run W s sched).threads.map (fun t => (t.p, t.v)) = s.threads.map (fun t => (t.p, t.v)) :=
  run_calls W s sched

/-- any state whose cache is empty (process start) and whose calls have not begun is consistent -/
theorem init_inv {R} (W : World R) (calls : List (String × String)) :
    Inv W ⟨[], calls.map (fun c => ⟨c.1, c.2, .start⟩)⟩ := by
  refine ⟨by intro e he; simp at he, ?_⟩
  intro t ht
  simp only [List.mem_map] at ht
  obtain ⟨c, _, rfl⟩ := ht
  simp [ThreadOK]

/-- Lock discipline and key discipline of the real code (facts regenerated from /repo):
    `knownPatterns` is touched only inside `ValidatePattern`, reads hold the read or write
    lock, writes hold the write lock, the key is always the pattern parameter, and the value
    stored is `regexp.MustCompile` of that same parameter — the shape `stepThread` models. -/
theorem pattern_lockset :
    FactsValidation.knownPatternsAccesses.all (fun a =>
      a.func == "ValidatePattern" && a.key == "$2" &&
      ((a.kind == "read" && (a.lock == "RLock" || a.lock == "Lock")) ||
       (a.kind == "write" && a.lock == "Lock" && a.rhs == "regexp.MustCompile($2)"))) = true ∧
    FactsValidation.knownPatternsAccesses.any (fun a => a.kind == "write") = true := by decide

/-! ### Non-vacuity -/
def exW : World (List Char) := ⟨fun p => p.toList, fun r v => r.isPrefixOf v.toList⟩
example : (run exW ⟨[], [⟨"a", "ab", .start⟩, ⟨"a", "ba", .start⟩]⟩ [0, 1, 1, 0, 0, 1, 1]).threads.map
    (fun t => match t.pc with | .done b => some b | _ => none) = [some true, some false] := by decide
example : isDate "2024-02-29".toList = true ∧ isDate "2023-02-29".toList = false := by decide
example : isIPv4 "192.168.0.1".toList = true ∧ isIPv4 "192.168.00.1".toList = false ∧ isIPv4 "::ffff:1.2.3.4".toList = false := by decide
example : isUUID "6ba7b810-9dad-11d1-80b4-00c04fd430c8".toList = true ∧
    isUUID "x6ba7b810-9dad-11d1-80b4-00c04fd430c8y".toList = false := by decide

end GoaVerif.Props.C17
