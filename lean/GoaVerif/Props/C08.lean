import GoaVerif.Model.Views
/-!
# C08 — result views expose exactly the attributes of the selected view

Theorems over the specification of projection (`Model/Views.lean`). The generated code and
`expr.Project` are compared with this specification on every generated design (vlib/c08.py).
-/
namespace GoaVerif.Props.C08
open GoaVerif.Views

/-- what survives projection: a view attribute that is declared and set -/
def kept (t : RType) (fs : List (String × Val)) (vf : ViewField) : Bool :=
  (attrOf t vf.name).isSome && (fieldOf fs vf.name).isSome

theorem projField_some (rec : String → String → Val → Val) (t : RType) (fs : List (String × Val)) (vf : ViewField)
    (a : AttDecl) (x : Val) (ha : attrOf t vf.name = some a) (hx : fieldOf fs vf.name = some x) :
    projField rec t fs vf = some (vf.name, projAttr rec vf a x) := by
  simp [projField, ha, hx]

theorem projField_none (rec : String → String → Val → Val) (t : RType) (fs : List (String × Val)) (vf : ViewField)
    (h : attrOf t vf.name = none ∨ fieldOf fs vf.name = none) : projField rec t fs vf = none := by
  unfold projField
  split
  · rename_i a x ha hx
    rcases h with h | h
    · rw [h] at ha; cases ha
    · rw [h] at hx; cases hx
  · rfl

theorem projV_obj (env : Env) (fuel : Nat) (T view : String) (t : RType) (vfs : List ViewField)
    (fs : List (String × Val)) (hT : lookupT env T = some t) (hv : viewOf t view = some vfs) :
    projV env (fuel + 1) T view (.obj fs) =
      .obj (vfs.filterMap (projField (projV env fuel) t fs)) := by
  simp only [projV, hT, hv]

/-- **Exactly the view.** The attributes on the wire are the attributes of the selected view
    that the type declares and the value has set, in the order of the view — nothing else. -/
theorem projV_keys (env : Env) (fuel : Nat) (T view : String) (t : RType) (vfs : List ViewField)
    (fs : List (String × Val)) (hT : lookupT env T = some t) (hv : viewOf t view = some vfs) :
    keys (projV env (fuel + 1) T view (.obj fs)) = (vfs.filter (kept t fs)).map (·.name) := by
  rw [projV_obj env fuel T view t vfs fs hT hv]
  simp only [keys]
  clear hv
  induction vfs with
  | nil => rfl
  | cons vf rest ih =>
    simp only [List.filterMap_cons, List.filter_cons]
    cases ha : attrOf t vf.name with
    | none =>
      rw [projField_none _ t fs vf (Or.inl ha)]
      simp [kept, ha, ih]
    | some a =>
      cases hx : fieldOf fs vf.name with
      | none =>
        rw [projField_none _ t fs vf (Or.inr hx)]
        simp [kept, hx, ih]
      | some x =>
        rw [projField_some _ t fs vf a x ha hx]
        simp [kept, ha, hx, ih]

/-- nothing outside the view leaks, and nothing is invented -/
theorem projV_no_leak (env : Env) (fuel : Nat) (T view : String) (t : RType) (vfs : List ViewField)
    (fs : List (String × Val)) (hT : lookupT env T = some t) (hv : viewOf t view = some vfs) (k : String)
    (hk : k ∈ keys (projV env (fuel + 1) T view (.obj fs))) :
    k ∈ vfs.map (·.name) ∧ (fieldOf fs k).isSome ∧ (attrOf t k).isSome := by
  rw [projV_keys env fuel T view t vfs fs hT hv] at hk
  obtain ⟨vf, hvf, rfl⟩ := List.mem_map.mp hk
  obtain ⟨hin, hkept⟩ := List.mem_filter.mp hvf
  simp only [kept, Bool.and_eq_true] at hkept
  exact ⟨List.mem_map.mpr ⟨vf, hin, rfl⟩, hkept.2, hkept.1⟩

/-- every attribute of the view that is declared and set is rendered -/
theorem projV_complete (env : Env) (fuel : Nat) (T view : String) (t : RType) (vfs : List ViewField)
    (fs : List (String × Val)) (hT : lookupT env T = some t) (hv : viewOf t view = some vfs) (vf : ViewField)
    (hin : vf ∈ vfs) (ha : (attrOf t vf.name).isSome) (hx : (fieldOf fs vf.name).isSome) :
    vf.name ∈ keys (projV env (fuel + 1) T view (.obj fs)) := by
  rw [projV_keys env fuel T view t vfs fs hT hv]
  exact List.mem_map.mpr ⟨vf, List.mem_filter.mpr ⟨hin, by simp [kept, ha, hx]⟩, rfl⟩

/-- **Recursively, with the selected view.** A rendered attribute of result type is the
    projection of its value under the view it selects: the one given inside the enclosing view,
    else the one on the declaration, else "default" (`selView`). -/
theorem projV_nested (env : Env) (fuel : Nat) (T view : String) (t : RType) (vfs : List ViewField)
    (fs : List (String × Val)) (hT : lookupT env T = some t) (hv : viewOf t view = some vfs)
    (hnd : (vfs.map (·.name)).Nodup) (vf : ViewField) (a : AttDecl) (x : Val)
    (hin : vf ∈ vfs) (ha : attrOf t vf.name = some a) (hx : fieldOf fs vf.name = some x) :
    ∃ out, projV env (fuel + 1) T view (.obj fs) = .obj out ∧
      fieldOf out vf.name = some (projAttr (projV env fuel) vf a x) := by
  refine ⟨_, projV_obj env fuel T view t vfs fs hT hv, ?_⟩
  clear hv
  induction vfs with
  | nil => cases hin
  | cons w rest ih =>
    rw [List.map_cons, List.nodup_cons] at hnd
    rcases List.mem_cons.mp hin with rfl | hin'
    · simp only [List.filterMap_cons]
      rw [projField_some _ t fs vf a x ha hx]
      simp [fieldOf]
    · have hne : w.name ≠ vf.name := fun e => hnd.1 (e ▸ List.mem_map.mpr ⟨vf, hin', rfl⟩)
      simp only [List.filterMap_cons]
      cases hw : projField (projV env fuel) t fs w with
      | none => exact ih hnd.2 hin'
      | some p =>
        have hp : p.1 = w.name := by
          cases haw : attrOf t w.name with
          | none => rw [projField_none _ t fs w (Or.inl haw)] at hw; cases hw
          | some aw =>
            cases hxw : fieldOf fs w.name with
            | none => rw [projField_none _ t fs w (Or.inr hxw)] at hw; cases hw
            | some xw =>
              rw [projField_some _ t fs w aw xw haw hxw] at hw
              cases hw; rfl
        obtain ⟨pk, pv⟩ := p
        simp only at hp
        subst hp
        simp only [fieldOf, List.lookup_cons]
        have : (vf.name == w.name) = false := by simpa using fun e => hne e.symm
        rw [this]
        exact ih hnd.2 hin'

theorem selView_override (vf : ViewField) (a : AttDecl) (v : String) (h : vf.view = some v) : selView vf a = v := by
  simp [selView, h]
theorem selView_decl (vf : ViewField) (a : AttDecl) (v : String) (h : vf.view = none) (hd : a.declView = some v) :
    selView vf a = v := by simp [selView, h, hd]
theorem selView_default (vf : ViewField) (a : AttDecl) (h : vf.view = none) (hd : a.declView = none) :
    selView vf a = "default" := by simp [selView, h, hd]

/-- a collection is projected element by element with the same view -/
theorem projAttr_coll (rec : String → String → Val → Val) (vf : ViewField) (a : AttDecl) (T' : String)
    (xs : List Val) (ht : a.target = some T') (hc : a.coll = true) :
    projAttr rec vf a (.arr xs) = .arr (xs.map (rec T' (selView vf a))) := by
  simp [projAttr, ht, hc]

/-- **The empty name is the default view** (rendering, validation and the projected type). -/
theorem default_empty_name (env : Env) (fuel : Nat) (T : String) (v : Val) (path : List String) :
    projV env fuel T "" v = projV env fuel T "default" v ∧
    projT env fuel path T "" = projT env fuel path T "default" ∧
    viewKnown env T "" = viewKnown env T "default" := by
  have hv : ∀ t : RType, viewOf t "" = viewOf t "default" := fun t => by simp [viewOf, normView]
  have hn : ∀ t : RType, projName t "" = projName t "default" := fun t => by simp [projName, normView]
  refine ⟨?_, ?_, ?_⟩
  · cases fuel with
    | zero => rfl
    | succ n => simp only [projV, hv]
  · cases fuel with
    | zero => rfl
    | succ n => simp only [projT, hv, hn]
  · simp only [viewKnown, hv]

/-- **An undefined view is refused**: nothing is rendered and no projected type exists. -/
theorem unknown_view_refused (env : Env) (fuel : Nat) (T view : String) (v : Val) (path : List String)
    (h : viewKnown env T view = false) :
    projV env fuel T view v = .null ∧ projT env fuel path T view = .err := by
  unfold viewKnown at h
  cases fuel with
  | zero => exact ⟨rfl, rfl⟩
  | succ n =>
    cases hT : lookupT env T with
    | none => simp [projV, projT, hT]
    | some t =>
      rw [hT] at h
      simp only [Option.isSome_eq_false_iff, Option.isNone_iff_eq_none] at h
      constructor
      · cases v <;> simp [projV, hT, h]
      · simp [projT, hT, h]

/-- the projected type has exactly the declared attributes of the view, in view order -/
theorem projTField_fst (rec : String → String → PTree) (t : RType) (vf : ViewField) :
    (projTField rec t vf).map (·.1) = if (attrOf t vf.name).isSome then some vf.name else none := by
  unfold projTField
  cases ha : attrOf t vf.name with
  | none => rfl
  | some a => cases ht : a.target <;> simp [ht]

theorem projT_keys (env : Env) (fuel : Nat) (path : List String) (T view : String) (t : RType) (vfs : List ViewField)
    (hT : lookupT env T = some t) (hv : viewOf t view = some vfs) (hp : path.contains (projName t view) = false) :
    ∃ attrs, projT env (fuel + 1) path T view = .node (projName t view) attrs ∧
      attrs.map (·.1) = (vfs.filter fun vf => (attrOf t vf.name).isSome).map (·.name) := by
  refine ⟨_, by simp only [projT, hT, hv, hp]; rfl, ?_⟩
  clear hv
  induction vfs with
  | nil => rfl
  | cons vf rest ih =>
    simp only [List.filterMap_cons, List.filter_cons]
    have hf := projTField_fst (projT env fuel (projName t view :: path)) t vf
    cases hpf : projTField (projT env fuel (projName t view :: path)) t vf with
    | none =>
      rw [hpf] at hf
      cases ha : attrOf t vf.name with
      | none => simpa [ha] using ih
      | some a => rw [ha] at hf; simp at hf
    | some p =>
      rw [hpf] at hf
      cases ha : attrOf t vf.name with
      | none => rw [ha] at hf; simp at hf
      | some a =>
        rw [ha] at hf
        simp only [Option.map_some, Option.isSome_some, if_true, Option.some.injEq] at hf
        simp [hf, ih]

/-- view attribute names are pairwise distinct (what the DSL produces: a view is an object) -/
def WFEnv (env : Env) : Prop := ∀ t ∈ env, ∀ v ∈ t.views, (v.2.map (·.name)).Nodup

theorem lookupT_mem (env : Env) (T : String) (t : RType) (h : lookupT env T = some t) : t ∈ env :=
  List.mem_of_find?_eq_some h

theorem viewOf_mem (t : RType) (view : String) (vfs : List ViewField) (h : viewOf t view = some vfs) :
    ∃ v ∈ t.views, v.2 = vfs := by
  unfold viewOf at h
  cases hf : t.views.find? (·.1 == normView view) with
  | none => rw [hf] at h; cases h
  | some v => rw [hf] at h; exact ⟨v, List.mem_of_find?_eq_some hf, Option.some.inj h⟩

theorem filterMap_congr_mem {α β} (f g : α → Option β) : ∀ (l : List α), (∀ x ∈ l, f x = g x) → l.filterMap f = l.filterMap g
  | [], _ => rfl
  | x :: xs, h => by
    simp only [List.filterMap_cons, h x (List.mem_cons_self ..)]
    rw [filterMap_congr_mem f g xs (fun y hy => h y (List.mem_cons_of_mem _ hy))]

/-- the field of the projected object named by a view attribute, for a duplicate-free view -/
theorem fieldOf_proj (rec : String → String → Val → Val) (t : RType) (fs : List (String × Val))
    (vfs : List ViewField) (hnd : (vfs.map (·.name)).Nodup) (vf : ViewField) (hin : vf ∈ vfs) :
    fieldOf (vfs.filterMap (projField rec t fs)) vf.name = (projField rec t fs vf).map (·.2) := by
  induction vfs with
  | nil => cases hin
  | cons w rest ih =>
    rw [List.map_cons, List.nodup_cons] at hnd
    simp only [List.filterMap_cons]
    rcases List.mem_cons.mp hin with rfl | hin'
    · cases hp : projField rec t fs vf with
      | none =>
        simp only [Option.map_none]
        -- no later entry carries this name
        unfold fieldOf
        rw [List.lookup_eq_none_iff]
        intro p hpm
        obtain ⟨u, hu, hup⟩ := List.mem_filterMap.mp hpm
        have hname : p.1 = u.name := by
          unfold projField at hup
          split at hup
          · cases hup; rfl
          · cases hup
        rw [bne_iff_ne]
        intro e
        have : vf.name ∈ rest.map (·.name) := List.mem_map.mpr ⟨u, hu, by rw [← hname]; exact e.symm⟩
        exact hnd.1 this
      | some p =>
        have hname : p.1 = vf.name := by
          unfold projField at hp
          split at hp
          · cases hp; rfl
          · cases hp
        obtain ⟨pk, pv⟩ := p
        simp only at hname
        subst hname
        simp [fieldOf]
    · have hne : w.name ≠ vf.name := fun e => hnd.1 (e ▸ List.mem_map.mpr ⟨vf, hin', rfl⟩)
      cases hp : projField rec t fs w with
      | none => exact ih hnd.2 hin'
      | some p =>
        have hname : p.1 = w.name := by
          unfold projField at hp
          split at hp
          · cases hp; rfl
          · cases hp
        obtain ⟨pk, pv⟩ := p
        simp only at hname
        subst hname
        simp only [fieldOf, List.lookup_cons]
        have : (vf.name == w.name) = false := by simpa using fun e => hne e.symm
        rw [this]
        exact ih hnd.2 hin'

/-- **The client rebuilds the same value under the same view**: projecting what was rendered
    under the view it was rendered with changes nothing (and loses nothing). -/
theorem client_same_view (env : Env) (hwf : WFEnv env) :
    ∀ (fuel : Nat) (T view : String) (v : Val),
      projV env fuel T view (projV env fuel T view v) = projV env fuel T view v := by
  intro fuel
  induction fuel with
  | zero => intro T view v; rfl
  | succ n ih =>
    intro T view v
    cases hT : lookupT env T with
    | none => simp [projV, hT]
    | some t =>
      cases v with
      | null => simp [projV, hT]
      | prim => simp [projV, hT]
      | arr xs => simp [projV, hT]
      | obj fs =>
        cases hv : viewOf t view with
        | none => simp [projV, hT, hv]
        | some vfs =>
          rw [projV_obj env n T view t vfs fs hT hv, projV_obj env n T view t vfs _ hT hv]
          congr 1
          obtain ⟨vw, hvw, rfl⟩ := viewOf_mem t view vfs hv
          have hnd := hwf t (lookupT_mem env T t hT) vw hvw
          apply filterMap_congr_mem
          intro vf hin
          have hf := fieldOf_proj (projV env n) t fs vw.2 hnd vf hin
          cases ha : attrOf t vf.name with
          | none => rw [projField_none _ t _ vf (Or.inl ha), projField_none _ t _ vf (Or.inl ha)]
          | some a =>
            cases hx : fieldOf fs vf.name with
            | none =>
              rw [projField_none _ t fs vf (Or.inr hx)] at hf ⊢
              exact projField_none _ t _ vf (Or.inr hf)
            | some x =>
              rw [projField_some _ t fs vf a x ha hx] at hf ⊢
              simp only [Option.map_some] at hf
              rw [projField_some _ t _ vf a _ ha hf]
              congr 2
              -- one attribute: the nested projection is idempotent by the induction hypothesis
              unfold projAttr
              cases ht : a.target with
              | none => rfl
              | some T' =>
                simp only
                by_cases hc : a.coll = true
                · simp only [hc, if_true]
                  cases x with
                  | arr xs => simp only [List.map_map]; congr 1; apply List.map_congr_left; intro y _; exact ih T' _ y
                  | null => rfl
                  | prim => rfl
                  | obj g => rfl
                · simp only [hc]
                  exact ih T' _ x

/-- rendering under one view and rebuilding under another is *not* the identity -/
theorem other_view_differs :
    ∃ (env : Env) (v : Val),
      keys (projV env 3 "Owner" "tiny" (projV env 3 "Owner" "default" v)) ≠ keys (projV env 3 "Owner" "default" v) :=
  ⟨[⟨"Owner", [⟨"id", none, false, none⟩, ⟨"email", none, false, none⟩],
      [("default", [⟨"id", none⟩, ⟨"email", none⟩]), ("tiny", [⟨"id", none⟩])]⟩],
   .obj [("id", .prim), ("email", .prim)], by decide⟩

/-! ### Non-vacuity: a type with three views, a nested type with an override, a collection -/
def owner : RType := ⟨"Owner", [⟨"id", none, false, none⟩, ⟨"email", none, false, none⟩],
  [("default", [⟨"id", none⟩, ⟨"email", none⟩]), ("tiny", [⟨"id", none⟩])]⟩
def item : RType := ⟨"Item",
  [⟨"id", none, false, none⟩, ⟨"name", none, false, none⟩, ⟨"owner", some "Owner", false, some "tiny"⟩,
   ⟨"backup", some "Owner", false, none⟩, ⟨"owners", some "Owner", true, none⟩],
  [("default", [⟨"id", none⟩, ⟨"name", none⟩, ⟨"owner", none⟩, ⟨"backup", none⟩]),
   ("tiny", [⟨"id", none⟩, ⟨"owner", some "default"⟩, ⟨"owners", some "tiny"⟩])]⟩
def env0 : Env := [item, owner]
def ownerV : Val := .obj [("id", .prim), ("email", .prim)]
def itemV : Val := .obj [("id", .prim), ("name", .prim), ("owner", ownerV), ("backup", ownerV), ("owners", .arr [ownerV])]

example : keys (projV env0 5 "Item" "tiny" itemV) = ["id", "owner", "owners"] := by decide
example : keys (projV env0 5 "Item" "default" itemV) = ["id", "name", "owner", "backup"] := by decide
/-- declaration says tiny, the tiny view of Item overrides with default; the default view of Item keeps the declaration -/
example : (match projV env0 5 "Item" "tiny" itemV with | .obj fs => (fs.lookup "owner").map keys | _ => none) = some ["id", "email"] := by decide
example : (match projV env0 5 "Item" "default" itemV with | .obj fs => (fs.lookup "owner").map keys | _ => none) = some ["id"] := by decide
example : (match projV env0 5 "Item" "default" itemV with | .obj fs => (fs.lookup "backup").map keys | _ => none) = some ["id", "email"] := by decide
example : viewKnown env0 "Item" "nope" = false ∧ viewKnown env0 "Item" "" = true := by decide

end GoaVerif.Props.C08
