import GoaVerif.Lemmas.Schema
/-!
# C14 — the documented schemas accept exactly what the design's validations accept

`accepts` is the meaning of the JSON-Schema subset of the generated documents, `schemaOf` the
schema goa documents an attribute with, `violations` (C04) the meaning of the design, to which
the generated server is tied by C04's check.

* `schema_iff_valid`: on the agreeing fragment (`agree`) the schema accepts a value iff it
  breaks no rule of the design — for every attribute, value and nesting depth.
* outside the fragment the two really differ; each excluded construct has a kernel-checked
  witness below (and a known finding replayed on the generated documents by vlib/c14.py).
-/
namespace GoaVerif.Props.C14
open GoaVerif.Validation GoaVerif.Schema

/-- **The contract neither promises what the server rejects nor forbids what it accepts.** -/
theorem schema_iff_valid : ∀ (fuel : Nat) (a : Att) (v : Val), agree a = true →
    accepts fuel (schemaOf a) v = (violations fuel a v).isEmpty := by
  intro fuel
  induction fuel with
  | zero => intro a v _; simp [accepts, violations]
  | succ n ih =>
    intro a v hag
    cases a with
    | prim k r =>
      cases k with
      | boolean => exact prim_bool n r v
      | number i lo hi => exact prim_num n i lo hi r v hag
      | string => exact prim_str n r v
      | bytes => exact prim_bytes n r v hag
    | arr r e =>
      have he : agree e = true := by simpa [agree] using hag
      cases v <;> try (simp [schemaOf, accepts, violations]; done)
      rename_i vs
      simp only [schemaOf, accepts, violations, isEmpty_app, isEmpty_flatMap]
      congr 1
      exact all_congr' _ _ vs (fun x _ => ih e x he)
    | map r k e =>
      simp only [agree, Bool.and_eq_true, Option.isNone_iff_eq_none] at hag
      obtain ⟨⟨⟨hmin, hmax⟩, hk⟩, he⟩ := hag
      cases k with
      | prim kk kr =>
        cases kk with
        | string =>
          cases v <;> try (simp [schemaOf, accepts, violations]; done)
          rename_i kvs
          simp only [schemaOf, accepts, violations, isEmpty_app, isEmpty_flatMap, lengthViol, hmin, hmax]
          simp only [List.append_nil, List.isEmpty_nil, Bool.true_and]
          apply all_congr'
          intro kv _
          rw [key_ok n kr kv.1 hk, ih e kv.2 he]
        | boolean => simp at hk
        | number _ _ _ => simp at hk
        | bytes => simp at hk
      | arr _ _ => simp at hk
      | map _ _ _ => simp at hk
      | obj _ => simp at hk
    | obj fields =>
      simp only [agree, Bool.and_eq_true] at hag
      obtain ⟨haf, hdn⟩ := hag
      cases v <;> try (simp [schemaOf, accepts, violations]; done)
      rename_i vals
      simp only [schemaOf, accepts, violations, isEmpty_flatMap, lengthViol, schemaFields_eq, List.all_map]
      simp only [List.append_nil, List.isEmpty_nil, Bool.true_and]
      apply all_congr'
      intro f hf
      have hreq := requiredOf_contains fields hdn f hf
      have hfa := agreeFields_mem fields haf f hf
      simp only [Function.comp]
      cases hfind : vals.find? (fun q => q.1 == f.1) with
      | none =>
        cases hb : f.2.1 <;> rw [hb] at hreq <;> simp [hb] <;> simpa using hreq
      | some q =>
        obtain ⟨qn, qv⟩ := q
        cases qv with
        | absent =>
          cases hb : f.2.1 <;> rw [hb] at hreq <;> simp [hb] <;> simpa using hreq
        | bool b => simpa using ih f.2.2 (.bool b) hfa
        | num x => simpa using ih f.2.2 (.num x) hfa
        | str s a b => simpa using ih f.2.2 (.str s a b) hfa
        | bytes k => simpa using ih f.2.2 (.bytes k) hfa
        | arr xs => simpa using ih f.2.2 (.arr xs) hfa
        | map kvs => simpa using ih f.2.2 (.map kvs) hfa
        | obj fs => simpa using ih f.2.2 (.obj fs) hfa

/-- in particular: accepted by the schema ⇔ the handler invokes the method (C04 `handle`) -/
theorem schema_iff_server_spec (fuel : Nat) (a : Att) (v : Val) (h : agree a = true) :
    accepts fuel (schemaOf a) v = true ↔ handle fuel a v = .called := by
  rw [schema_iff_valid fuel a v h]
  unfold handle
  cases violations fuel a v <;> simp

/-! ### Outside the fragment the document and the server differ (each is a known finding) -/

/-- unsigned kinds are documented with the signed format of the same width: the schema forbids
    the upper half of the type's range, which the server accepts … -/
theorem uint32_upper_half_forbidden :
    let a := Att.prim (.number true (some 0) (some 4294967295)) {}
    let v := Val.num ⟨4294967295, 1⟩
    accepts 2 (schemaOf a) v = false ∧ violations 2 a v = [] := by decide

/-- … and admits negative numbers, which the server cannot even decode -/
theorem uint32_negative_admitted :
    let a := Att.prim (.number true (some 0) (some 4294967295)) {}
    let v := Val.num ⟨-1, 1⟩
    accepts 2 (schemaOf a) v = true ∧ violations 2 a v = [.invalidFieldType] := by decide

/-- MinLength on `Bytes`: the server counts bytes, the schema counts base64 characters -/
theorem bytes_length_counts_differ :
    let a := Att.prim .bytes { minLen := some 2 }
    let v := Val.bytes 1
    accepts 2 (schemaOf a) v = true ∧ violations 2 a v = [.invalidLength] := by decide

/-- validations on map keys cannot be expressed in an OpenAPI 3.0 schema -/
theorem map_key_rules_undocumented :
    let a := Att.map {} (.prim .string { pattern := true }) (.prim .boolean {})
    let v := Val.map [(.str "7" true false, .bool true)]
    accepts 3 (schemaOf a) v = true ∧ violations 3 a v = [.invalidPattern] := by decide

/-- MinLength / MaxLength of a map are not documented as minProperties / maxProperties -/
theorem map_length_undocumented :
    let a := Att.map { maxLen := some 1 } (.prim .string {}) (.prim .boolean {})
    let v := Val.map [(.str "a" true true, .bool true), (.str "b" true true, .bool true)]
    accepts 3 (schemaOf a) v = true ∧ violations 3 a v = [.invalidLength] := by decide

/-! ### Non-vacuity: a nested attribute inside the fragment, one valid and one invalid value -/
def sample : Att :=
  .obj [("id", true, .prim (.number true (some (-9223372036854775808)) (some 9223372036854775807)) { min := some ⟨1, 1⟩ }),
        ("tags", false, .arr { maxLen := some 2 } (.prim .string { minLen := some 1 })),
        ("m", false, .map {} (.prim .string {}) (.prim .boolean {}))]
example : agree sample = true := by decide
example : accepts 5 (schemaOf sample) (.obj [("id", .num ⟨3, 1⟩), ("tags", .arr [.str "a" true true])]) = true := by decide
example : accepts 5 (schemaOf sample) (.obj [("id", .num ⟨0, 1⟩)]) = false := by decide
example : accepts 5 (schemaOf sample) (.obj [("tags", .arr [])]) = false := by decide

end GoaVerif.Props.C14
