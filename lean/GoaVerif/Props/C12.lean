import GoaVerif.Model.Closure
import GoaVerif.Generated.FactsDSL
/-!
# C12 — a DSL program yields a design or located errors; accepted designs have no dangling references

Decided partially by proof (DESIGN.md): the engine-level guarantees are C11's theorems; here
* `dsl_functions_guarded` — over the table of every exported DSL function regenerated from /repo:
  every type switch on the expression being built has a default branch, none asserts its type
  unchecked, and every function that inspects it can report;
* `closed_iff` / `accepted_closed` — the reference checks as a specification: a design is closed
  iff each mapped attribute, response attribute, error response, scheme and view resolves; the
  real engine's accept/reject is compared with `closed` on designs with one injected dangling
  name (vlib/c12.py), and every accepted random program is walked for unresolved references.
The universal "no call sequence panics or diverges" is searched, not proved: rtdsl runs programs
assembled from all exported DSL functions.
-/
namespace GoaVerif.Props.C12
open GoaVerif.Closure GoaVerif.Generated.FactsDSL

theorem missingFrom_nil_iff (kind owner : String) (names within : List String) :
    missingFrom kind owner names within = [] ↔ ∀ n ∈ names, n ∈ within := by
  unfold missingFrom
  simp only [List.map_eq_nil_iff, List.filter_eq_nil_iff, Bool.not_eq_true', Bool.not_eq_false']
  constructor
  · intro h n hn; simpa using h n hn
  · intro h n hn; simpa using h n hn

/-- what a response may map when no view is fixed on the result: attributes of the result that every view selects -/
theorem respUsable_all_views (m : Method) (h : m.resultView = none) (a : String) (ha : a ∈ respUsable m) :
    a ∈ m.result ∧ ∀ va ∈ m.viewAttrs, a ∈ va.2 := by
  unfold respUsable at ha
  rw [h] at ha
  simp only [List.mem_filter, List.all_eq_true] at ha
  exact ⟨ha.1, fun va hva => by simpa using ha.2 va hva⟩

/-- … and with a view fixed on the result: the attributes of that view -/
theorem respUsable_fixed_view (m : Method) (v : String) (attrs : List String) (h : m.resultView = some v)
    (hl : m.viewAttrs.lookup v = some attrs) : respUsable m = attrs := by
  unfold respUsable
  rw [h]; simp [hl]

/-- **No dangling reference is accepted**: a closed design resolves every name it uses. -/
theorem accepted_closed (d : Design) (h : closed d = true) :
    (∀ e ∈ d.httpErrors, e ∈ d.errors) ∧ (∀ x ∈ d.apiSchemes, x ∈ d.schemes) ∧
    (∀ av ∈ d.attrViews, av.view ∈ av.views) ∧
    ∀ s ∈ d.services,
      (∀ e ∈ s.httpErrors, e ∈ s.errors ++ d.errors) ∧ (∀ x ∈ s.schemes, x ∈ d.schemes) ∧
      ∀ m ∈ s.methods,
        (∀ a ∈ m.params ++ m.headers ++ m.cookies ++ m.body, a ∈ m.payload) ∧
        (∀ a ∈ m.respAttrs, a ∈ respUsable m) ∧
        (∀ e ∈ m.httpErrors, e ∈ m.errors ++ s.errors ++ d.errors) ∧
        (∀ x ∈ m.schemes, x ∈ d.schemes) ∧
        (∀ v, m.resultView = some v → v ∈ m.views) := by
  unfold closed at h
  rw [List.isEmpty_iff] at h
  unfold dangling at h
  simp only [List.append_eq_nil_iff, List.flatMap_eq_nil_iff] at h
  obtain ⟨⟨⟨h1, h2⟩, h3⟩, h4⟩ := h
  refine ⟨(missingFrom_nil_iff ..).mp h1, (missingFrom_nil_iff ..).mp h2, ?_, ?_⟩
  · intro av hav
    have := h4 av hav
    unfold danglingAttrView at this
    by_cases hc : av.views.contains av.view = true
    · simpa using hc
    · simp [hc] at this
      exact this
  intro s hs
  have hsv := h3 s hs
  unfold danglingService at hsv
  simp only [List.append_eq_nil_iff, List.flatMap_eq_nil_iff] at hsv
  obtain ⟨⟨hs1, hs2⟩, hs3⟩ := hsv
  refine ⟨(missingFrom_nil_iff ..).mp hs1, (missingFrom_nil_iff ..).mp hs2, ?_⟩
  intro m hm
  have hmv := hs3 m hm
  unfold danglingMethod at hmv
  simp only [List.append_eq_nil_iff] at hmv
  obtain ⟨⟨⟨⟨⟨⟨⟨p1, p2⟩, p3⟩, p4⟩, p5⟩, p6⟩, p7⟩, p8⟩ := hmv
  refine ⟨?_, (missingFrom_nil_iff ..).mp p5, (missingFrom_nil_iff ..).mp p6, (missingFrom_nil_iff ..).mp p7, ?_⟩
  · intro a ha
    simp only [List.mem_append] at ha
    rcases ha with ((ha | ha) | ha) | ha
    · exact (missingFrom_nil_iff ..).mp p1 a ha
    · exact (missingFrom_nil_iff ..).mp p2 a ha
    · exact (missingFrom_nil_iff ..).mp p3 a ha
    · exact (missingFrom_nil_iff ..).mp p4 a ha
  · intro v hv
    rw [hv] at p8
    by_cases hc : m.views.contains v = true
    · simpa using hc
    · simp [hc] at p8
      exact p8

/-- and one unresolved name is enough to refuse: every reported reference really is unresolved -/
theorem dangling_sound_method (d : Design) (s : Service) (m : Method) (x : Dangling)
    (hx : x ∈ missingFrom "header" (s.name ++ "." ++ m.name) m.headers m.payload) :
    x.name ∈ m.headers ∧ x.name ∉ m.payload := by
  unfold missingFrom at hx
  obtain ⟨n, hn, rfl⟩ := List.mem_map.mp hx
  obtain ⟨h1, h2⟩ := List.mem_filter.mp hn
  exact ⟨h1, by simpa using h2⟩

/-! ### every exported DSL function looks before it touches -/
def guarded (f : DSLFunc) : Bool :=
  f.switches == f.switchesWithDefault && f.unchecked == 0 &&
  (f.switches + f.checked == 0 || f.reports + f.incompatible > 0)

/-- functions that do nothing at all when misplaced (a checked assertion without an `else`): the
    call is ignored and no error is recorded — allowed by the property (no crash, the design is
    judged without the call), listed so that a new silent function is noticed -/
def silentWhenMisplaced : List String := ["Email", "MaxLength", "MinLength"]

theorem dsl_functions_guarded : dslFuncs.all (fun f => guarded f || silentWhenMisplaced.contains f.name) = true := by decide

theorem dsl_surface_seen : 100 ≤ dslFuncs.length := by decide

/-! ### Non-vacuity -/
def m0 : Method := ⟨"show", ["id", "token"], ["name"], ["not_found"], ["id"], ["token"], [], [], ["name"], ["not_found", "busy"], ["jwt"], some "tiny", ["default", "tiny"],
  [("default", ["name", "note"]), ("tiny", ["name"])]⟩
def d0 : Design := ⟨["jwt"], ["api_down"], ["api_down"], [], [⟨"svc", ["busy"], ["busy"], [], [m0]⟩], [⟨"Item.owner", "tiny", ["default", "tiny"]⟩]⟩
example : closed d0 = true := by decide
example : dangling { d0 with schemes := [] } = [⟨"scheme", "svc.show", "jwt"⟩] := by decide
example : dangling { d0 with attrViews := [⟨"Item.owner", "tiny", ["default", "tiny"]⟩, ⟨"Item.other", "nope", ["default", "tiny"]⟩] }
    = [⟨"attribute-view", "Item.other", "nope"⟩] := by decide
/-- an attribute the type has but not every view selects cannot be mapped by a response (no view fixed) -/
example : dangling { d0 with services := [⟨"svc", ["busy"], ["busy"], [], [{ m0 with resultView := none, result := ["name", "note"], respAttrs := ["note"] }]⟩] }
    = [⟨"response-attribute", "svc.show", "note"⟩] := by decide
example : dangling { d0 with services := [⟨"svc", [], [], [], [{ m0 with headers := ["zz"] }]⟩] }
    = [⟨"header", "svc.show", "zz"⟩, ⟨"error-response", "svc.show", "busy"⟩] := by decide

end GoaVerif.Props.C12
