import GoaVerif.Model.Proto
import GoaVerif.Model.GrpcHandler
/-!
# C10 — gRPC definitions are well formed (request-message field numbers)

* `tagsOK_sound`: what `validateRPCTags` accepts has a number on every field and no number twice.
* `accepted_plain_numbers`: an accepted endpoint without `Message`/`Metadata` has a request
  message in which every field carries the number chosen in the design and no number is used twice.
* the two gaps, each a kernel-checked witness and a known finding replayed on the generated
  .proto: with an explicit `Message` only the first listed attribute is checked; with `Metadata`
  and no `Message` nothing is; a streamed request is never checked; no check looks at the numeric range.
The emitted .proto of every generated design is parsed and judged directly (vlib/c10.py); the
conversions between messages and service types are executed on stand-in structs.
-/
namespace GoaVerif.Props.C10
open GoaVerif.Proto

theorem tagsOK_sound : ∀ (fs : List Attr) (seen : List Nat), tagsOK seen fs = true →
    (∀ a ∈ fs, a.union = false → ∃ t, a.tag = some t ∧ t ∉ seen) ∧
    ((fs.filter fun a => !a.union).filterMap (·.tag)).Nodup
  | [], _, _ => ⟨fun a ha => (by cases ha), List.nodup_nil⟩
  | a :: rest, seen, h => by
    unfold tagsOK at h
    by_cases hu : a.union = true
    · simp only [hu, if_true] at h
      obtain ⟨h1, h2⟩ := tagsOK_sound rest seen h
      refine ⟨?_, by simpa [List.filter_cons, hu] using h2⟩
      intro b hb hbu
      rcases List.mem_cons.mp hb with rfl | hb'
      · rw [hu] at hbu; cases hbu
      · exact h1 b hb' hbu
    · have hu' : a.union = false := by simpa using hu
      simp only [hu', Bool.false_eq_true, if_false] at h
      cases ht : a.tag with
      | none => rw [ht] at h; cases h
      | some t =>
        rw [ht] at h
        by_cases hs : seen.contains t = true
        · simp only [hs, if_true] at h; cases h
        · simp only [hs, Bool.false_eq_true, if_false] at h
          obtain ⟨h1, h2⟩ := tagsOK_sound rest (t :: seen) h
          have hts : t ∉ seen := by simpa using hs
          refine ⟨?_, ?_⟩
          · intro b hb hbu
            rcases List.mem_cons.mp hb with rfl | hb'
            · exact ⟨t, ht, hts⟩
            · obtain ⟨t', ht', hn⟩ := h1 b hb' hbu
              exact ⟨t', ht', fun hm => hn (List.mem_cons_of_mem _ hm)⟩
          · simp only [List.filter_cons, hu', Bool.not_false, if_true, List.filterMap_cons, ht]
            refine List.nodup_cons.mpr ⟨?_, h2⟩
            intro hm
            obtain ⟨b, hb, hbt⟩ := List.mem_filterMap.mp hm
            have hbr := (List.mem_filter.mp hb)
            obtain ⟨t', ht', hn⟩ := h1 b hbr.1 (by simpa using hbr.2)
            rw [hbt] at ht'
            cases ht'
            exact hn (List.mem_cons_self ..)

/-- **Accepted ⇒ every field has its number and no number is used twice**, for endpoints that
    use neither `Message` nor `Metadata` (the case the checks cover). -/
theorem accepted_plain_numbers (e : Endpoint) (hm : e.message = none) (hd : e.metadata = []) (hs : e.streaming = false)
    (h : accepted e = true) :
    (∀ a ∈ requestFields e, a.union = false → ∃ t, a.tag = some t) ∧
    (((requestFields e).filter fun a => !a.union).filterMap (·.tag)).Nodup := by
  have hreq : requestFields e = e.payload.filter fun a => !a.security := by
    simp [requestFields, hm, hd]
  have hacc : tagsOK [] (e.payload.filter fun a => !a.security) = true := by
    simpa [accepted, hm, hd, hs] using h
  rw [hreq]
  obtain ⟨h1, h2⟩ := tagsOK_sound _ [] hacc
  exact ⟨fun a ha hu => let ⟨t, ht, _⟩ := h1 a ha hu; ⟨t, ht⟩, h2⟩

/-- the check itself does not look at the range of a number -/
theorem range_unchecked :
    let e : Endpoint := ⟨[⟨"a", some 0, false, false⟩, ⟨"b", some 19000, false, false⟩], none, [], false⟩
    accepted e = true ∧ wfFields (requestFields e) = false := by decide

/-- with an explicit Message only the first listed attribute is checked -/
theorem explicit_message_gap :
    let e : Endpoint := ⟨[⟨"a", some 1, false, false⟩, ⟨"b", some 2, false, false⟩, ⟨"c", some 2, false, false⟩], some ["a", "b", "c"], [], false⟩
    accepted e = true ∧ wfFields (requestFields e) = false := by decide

/-- with Metadata and no Message the numbers are not checked at all -/
theorem metadata_gap :
    let e : Endpoint := ⟨[⟨"k", some 1, false, false⟩, ⟨"b", some 2, false, false⟩, ⟨"c", some 2, false, false⟩], none, ["k"], false⟩
    accepted e = true ∧ wfFields (requestFields e) = false := by decide

/-- a streamed request message is not checked either -/
theorem streaming_gap :
    let e : Endpoint := ⟨[⟨"b", some 2, false, false⟩, ⟨"c", some 2, false, false⟩], none, [], true⟩
    accepted e = true ∧ wfFields (requestFields e) = false := by decide

/-! ### The runtime around the generated code: unary handler and invoker
`Model/GrpcHandler.lean` (status function translated from /repo); tied by `rtgrpc` ↔ `drv_grpc` over a
real grpc transport. -/
section handler
open GoaVerif.GrpcHandler GoaVerif.Generated.TrGrpcerr

theorem grpcErrorCode_ne_ok (e : ServiceError) : grpcErrorCode e ≠ 0 := by
  obtain ⟨_, _, _, t, tmp, f⟩ := e
  cases t <;> cases tmp <;> cases f <;> simp [grpcErrorCode, Id.run] <;> decide

/-- **Results with headers and trailers**: when decoder, endpoint and encoder succeed the caller gets the
    message, exactly the header metadata and exactly the trailer metadata the encoder produced —
    whatever the other one holds (a non-empty header does not cost the trailers, and conversely). -/
theorem unary_success_delivers_metadata (s : Spec) (hd : s.dec = .ok) (he : s.ep = .ok) (hc : s.enc = .ok) :
    unary s = ⟨0, true, true, s.hdr, s.trlr⟩ := by
  unfold unary; rw [hd, he, hc]

/-- A failure anywhere delivers no message and no metadata, with a status that is not OK. -/
theorem unary_failure_delivers_nothing (s : Spec) (h : ¬ (s.dec = .ok ∧ s.ep = .ok ∧ s.enc = .ok)) :
    (unary s).result = false ∧ (unary s).hdr = [] ∧ (unary s).trlr = [] ∧ (unary s).code ≠ 0 := by
  obtain ⟨d, e, c, hd, tr⟩ := s
  cases d <;> cases e <;> cases c <;> simp_all [unary, failed, codeOf, grpcErrorCode_ne_ok]

/-- **Invalid requests are refused before user code**: the endpoint runs iff the request decoder
    (which validates the message) succeeded. -/
theorem user_code_runs_iff_decoded (s : Spec) : (unary s).ran = true ↔ s.dec = .ok := by
  obtain ⟨d, e, c, hd, tr⟩ := s
  cases d <;> cases e <;> cases c <;> simp [unary, failed]

/-- a request the decoder refuses with an ordinary error is answered InvalidArgument -/
theorem undecodable_request_is_invalid_argument (s : Spec) (h : s.dec = .plain) : (unary s).code = 3 := by
  unfold unary; rw [h]; rfl

/-- the same gate in front of streaming endpoints: the endpoint gets the stream iff the first message and the metadata decoded,
    and the status of a refused request is the one the unary handler gives -/
theorem stream_user_code_runs_iff_decoded (d e : Step) : (stream d e).2 = true ↔ d = .ok := by
  cases d <;> simp [stream]

theorem stream_refusal_like_unary (d e : Step) (h : d ≠ .ok) (s : Spec) (hs : s.dec = d) : (stream d e).1 = (unary s).code := by
  obtain ⟨sd, se, sc, hh, tt⟩ := s
  subst hs
  cases sd <;> simp_all [stream, unary, failed]

example : unary ⟨.ok, .ok, .ok, [("x-a", ["h"])], [("x-b", ["t1", "t2"])]⟩ = ⟨0, true, true, [("x-a", ["h"])], [("x-b", ["t1", "t2"])]⟩ := rfl
example : (unary ⟨.svc { Temporary := true }, .ok, .ok, [], []⟩).code = 14 := by decide
end handler

/-! ### Non-vacuity -/
example : accepted ⟨[⟨"a", some 1, false, false⟩, ⟨"u", none, true, false⟩, ⟨"b", some 3, false, false⟩, ⟨"tok", none, false, true⟩], none, [], false⟩ = true := by decide
example : accepted ⟨[⟨"a", some 1, false, false⟩, ⟨"b", some 1, false, false⟩], none, [], false⟩ = false := by decide
example : accepted ⟨[⟨"a", none, false, false⟩], none, [], false⟩ = false := by decide

end GoaVerif.Props.C10
