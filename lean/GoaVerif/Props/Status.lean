import GoaVerif.Model.StatusConst
import GoaVerif.Generated.FactsStatus
/-!
# C05, C07 — the status the generated server writes is the status the design assigns
The HTTP generators turn every designed status code (success responses, error responses, redirects)
into Go source through `statusCodeToHTTPConst`. `Generated/FactsStatus.lean` is regenerated on every run
from /repo (the map literal `statusCodeToConst`, the printed body of the function, the sites that fill a
`StatusCode` field) and from the Go installation (the constants of net/http).
-/
namespace GoaVerif.Props.Status
open GoaVerif.StatusConst GoaVerif.Generated.FactsStatus

/-- Every entry of /repo's table names a net/http constant with the entry's value. -/
theorem table_names_the_right_constants : tableOK statusTable httpConsts = true := by decide

/-- **For every status code** the expression the generators write denotes that code: the server answers
    (and the client expects) the designed status, whether net/http names it or not. -/
theorem status_written_is_status_designed (c : Nat) : eval httpConsts (emit statusTable c) = some c :=
  emit_eval statusTable httpConsts table_names_the_right_constants c

/-- The function in /repo is the lookup `emit` models: table entry → `http.<name>`, otherwise the number. -/
theorem function_is_the_modelled_lookup :
    statusFnBody = "{\n\tif v, ok := statusCodeToConst[statusCode]; ok {\n\t\treturn fmt.Sprintf(\"http.%s\", v)\n\t}\n\treturn fmt.Sprintf(\"%d\", statusCode)\n}" := by
  rfl

/-- Every site of http/codegen that fills a `StatusCode` of the template data goes through the function
    (the first one copies a value that already did). -/
theorem every_site_uses_the_function :
    statusSites = ["e.Response.StatusCode", "statusCodeToHTTPConst(httpEndpoint.Redirect.StatusCode)",
      "statusCodeToHTTPConst(resp.StatusCode)", "statusCodeToHTTPConst(s.Redirect.StatusCode)",
      "statusCodeToHTTPConst(v.Response.StatusCode)"] := by
  rfl

/-! ### Non-vacuity -/
example : emit statusTable 404 = .const "StatusNotFound" := by decide
example : (emit statusTable 425).show = "425" := by decide
example : eval httpConsts (.const "StatusTooManyRequests") = some 429 := by decide
/-- a table with one wrong entry is rejected by the hypothesis of `emit_eval` -/
example : tableOK [(425, "StatusTooManyRequests")] httpConsts = false := by decide

end GoaVerif.Props.Status
