import GoaVerif.Model.OpenAPI
/-!
# C07 — OpenAPI documents list exactly the server's operations
The decision procedures the check uses (`opsDiff`, `pathParamDiff`, `template`) with the theorems
that make their answers mean what the property says. Validity of the documents is decided by an
independent implementation (kin-openapi) per generated design; see `vlib/c07.py`.
-/
namespace GoaVerif.Props.C07
open GoaVerif.OpenAPI

/-- The comparison reports nothing iff both lists denote the same set of operations. -/
theorem opsDiff_empty_iff (d m : List Op) :
    opsDiff d m = ([], []) ↔ ∀ o, o ∈ d ↔ o ∈ m := by
  unfold opsDiff
  simp only [Prod.mk.injEq, List.filter_eq_nil_iff, Bool.not_eq_true']
  constructor
  · rintro ⟨h1, h2⟩ o
    constructor
    · intro ho; have := h1 o ho; simpa using this
    · intro ho; have := h2 o ho; simpa using this
  · intro h
    constructor
    · intro o ho; simpa using (h o).mp ho
    · intro o ho; simpa using (h o).mpr ho

/-- everything it reports is a genuine difference -/
theorem opsDiff_sound (d m : List Op) (o : Op) :
    (o ∈ (opsDiff d m).1 → o ∈ d ∧ o ∉ m) ∧ (o ∈ (opsDiff d m).2 → o ∈ m ∧ o ∉ d) := by
  unfold opsDiff
  simp [List.mem_filter]

theorem varsOf_forget (segs : List Seg) : varsOf (segs.map forget) = varsOf segs := by
  induction segs with
  | nil => rfl
  | cons s r ih => cases s <;> simp [varsOf, forget, ih]

/-- The template keeps the variables of the mounted pattern, in order, and turns every
    catch-all into an ordinary variable. -/
theorem template_segments (segs : List Seg) :
    varsOf (segs.map forget) = varsOf segs ∧ ∀ s ∈ segs.map forget, ∀ n, s ≠ .var n true := by
  refine ⟨varsOf_forget segs, ?_⟩
  intro s hs n
  simp only [List.mem_map] at hs
  obtain ⟨x, _, rfl⟩ := hs
  cases x <;> simp [forget]

/-- the literal segments are untouched -/
theorem template_literals (segs : List Seg) (i : Nat) (s : List Char) (h : segs[i]? = some (.lit s)) :
    (segs.map forget)[i]? = some (.lit s) := by
  simp [List.getElem?_map, h, forget]

theorem pathParamDiff_empty_iff (tmpl : String) (declared : List String) :
    pathParamDiff tmpl declared = ([], []) ↔ ∀ v, v ∈ varsOf (segsOf tmpl.toList) ↔ v ∈ declared := by
  unfold pathParamDiff
  simp only [Prod.mk.injEq, List.filter_eq_nil_iff, Bool.not_eq_true']
  constructor
  · rintro ⟨h1, h2⟩ v
    constructor
    · intro hv; simpa using h1 v hv
    · intro hv; simpa using h2 v hv
  · intro h
    constructor
    · intro v hv; simpa using (h v).mp hv
    · intro v hv; simpa using (h v).mpr hv

/-! ### Non-vacuity -/
example : template "/a/{id}/{*rest}" = "/a/{id}/{rest}" := by decide
example : varsOf (segsOf "/a/{id}/{*rest}".toList) = ["id", "rest"] := by decide
example : opsDiff [("GET", "/a/{id}")] [("GET", "/a/{id}"), ("POST", "/b")] = ([], [("POST", "/b")]) := by decide
example : pathParamDiff "/a/{id}/{rest}" ["id"] = (["rest"], []) := by decide

end GoaVerif.Props.C07
