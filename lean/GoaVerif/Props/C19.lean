import GoaVerif.Model.Middleware
import GoaVerif.Generated.TrSampler
/-!
# C19 — request-ID and trace middlewares: property theorems
Model `GoaVerif.Model.Middleware` (hand-written, tie T3 through `rtmw`/`drv_mw`, HTTP and
gRPC unary/stream variants all compared against the same functions) and the regenerated
`fixedSampler.Sample` (tie T1).
-/
namespace GoaVerif.Props.C19
open GoaVerif.Middleware GoaVerif.Generated

/-- Every request carries a non-empty request ID, whatever the options and inbound values,
    provided the ID generator does not return the empty string. -/
theorem reqid_nonempty (o : RIDOpts) (hdr : Bytes) (ctx : Option Bytes) (fresh : Bytes)
    (hf : fresh ≠ []) : requestID o hdr ctx fresh ≠ [] := by
  unfold requestID generateRequestID
  generalize (if o.use = true then
      match inboundCtx o hdr ctx with
      | some i => if o.limit > 0 ∧ (i.length : Int) > o.limit then i.take o.limit.toNat else i
      | none => []
    else []) = id
  simp only
  split
  · exact hf
  · assumption

/-- Trusted inbound value: the ID is the inbound header/metadata value, truncated to the
    limit (in bytes) when a positive limit is configured. -/
theorem reqid_trusted (o : RIDOpts) (hdr : Bytes) (ctx : Option Bytes) (fresh : Bytes)
    (hu : o.use = true) (hh : hdr ≠ []) :
    requestID o hdr ctx fresh =
      if o.limit > 0 ∧ (hdr.length : Int) > o.limit then hdr.take o.limit.toNat else hdr := by
  unfold requestID generateRequestID inboundCtx
  simp only [hu, hh, ne_eq, not_false_eq_true, and_self, ↓reduceIte]
  split
  · rename_i hlim
    have : hdr.take o.limit.toNat ≠ [] := by
      intro h
      rcases List.take_eq_nil_iff.mp h with h0 | h0
      · omega
      · exact hh h0
    simp [this]
  · simp [hh]

/-- The truncated ID never exceeds the limit. -/
theorem reqid_limit (o : RIDOpts) (hdr : Bytes) (ctx : Option Bytes) (fresh : Bytes)
    (hu : o.use = true) (hh : hdr ≠ []) (hl : o.limit > 0) :
    ((requestID o hdr ctx fresh).length : Int) ≤ max o.limit 0 ∨
    requestID o hdr ctx fresh = hdr ∧ (hdr.length : Int) ≤ o.limit := by
  rw [reqid_trusted o hdr ctx fresh hu hh]
  split
  · left; simp [List.length_take]; omega
  · right; constructor
    · rfl
    · rename_i h; simp only [not_and, Int.not_lt] at h; exact (h hl)

/-- Untrusted: a fresh identifier, whatever arrives. -/
theorem reqid_fresh (o : RIDOpts) (hdr : Bytes) (ctx : Option Bytes) (fresh : Bytes)
    (hu : o.use = false) : requestID o hdr ctx fresh = fresh := by
  unfold requestID generateRequestID
  simp [hu]

/-- Trusted but nothing inbound: fresh. -/
theorem reqid_fresh_absent (o : RIDOpts) (fresh : Bytes) :
    requestID o [] none fresh = fresh := by
  unfold requestID generateRequestID inboundCtx
  simp

/-- Options: the default is "always generate"; naming a header enables trust. -/
theorem opts_default : (newOpts []).use = false := rfl
theorem opts_header_enables (l : List RIDOpt) (n : String) :
    (newOpts (l ++ [.header n])).use = true ∧ (newOpts (l ++ [.header n])).header = n := by
  simp [newOpts, List.foldl_append, applyOpt]
theorem opts_use_last (l : List RIDOpt) (f : Bool) :
    (newOpts (l ++ [.useReqID f])).use = f := by
  simp [newOpts, List.foldl_append, applyOpt]

/-- A request that arrives with a trace ID keeps it, whatever the sampling and discard
    decisions; the caller's span becomes the parent; the span is the fresh one. -/
theorem trace_keep (hT hP : Bytes) (d s : Bool) (nt ns : Bytes) (h : hT ≠ []) :
    trace hT hP d s nt ns = some ⟨hT, ns, if hP ≠ [] then some hP else none⟩ := by
  unfold trace; simp [h]

/-- Without inbound trace: traced iff not discarded and sampled (and the generator is sane). -/
theorem trace_new (hP : Bytes) (d s : Bool) (nt ns : Bytes) (hnt : nt ≠ []) :
    trace [] hP d s nt ns =
      if !d && s then some ⟨nt, ns, if hP ≠ [] then some hP else none⟩ else none := by
  unfold trace
  cases d <;> cases s <;> simp [hnt]

/-- **Chains.** Once a hop is traced, the next hop through a traced client is traced with the
    same trace ID and has the previous hop's span as its parent (spans non-empty). -/
theorem trace_some (hT hP : Bytes) (d sm : Bool) (nt ns : Bytes) (s : Span)
    (h : trace hT hP d sm nt ns = some s) : s.trace ≠ [] ∧ s.span = ns := by
  unfold trace at h
  by_cases hT0 : hT = []
  · subst hT0
    cases d <;> cases sm <;> simp at h
    obtain ⟨hn, rfl⟩ := h
    exact ⟨hn, rfl⟩
  · simp [hT0] at h
    rw [← h]; exact ⟨hT0, rfl⟩

theorem chain_step (hT hP : Bytes) (sampled : Nat → Bool) (ids : Nat → Bytes × Bytes)
    (hs : ∀ k, (ids k).2 ≠ []) (k n : Nat) (s : Span)
    (h0 : (chain hT hP sampled ids k (n + 2))[0]? = some (some s)) :
    ∃ s', (chain hT hP sampled ids k (n + 2))[1]? = some (some s') ∧
      s'.trace = s.trace ∧ s'.parent = some s.span := by
  simp only [chain, List.getElem?_cons_zero, Option.some.injEq] at h0
  simp only [chain, List.getElem?_cons_succ, List.getElem?_cons_zero]
  rw [h0]
  simp only [outgoing]
  obtain ⟨hne, hspan⟩ := trace_some _ _ _ _ _ _ _ h0
  have hsp : s.span ≠ [] := by rw [hspan]; exact hs k
  rw [trace_keep _ _ _ _ _ _ hne]
  exact ⟨_, rfl, rfl, by simp [hsp]⟩

/-- Suffix of a chain is a chain (used to lift `chain_step` to every position). -/
theorem chain_drop (hT hP : Bytes) (sampled : Nat → Bool) (ids : Nat → Bytes × Bytes) (k n : Nat) :
    ∃ hT' hP', (chain hT hP sampled ids k (n + 1)).tail = chain hT' hP' sampled ids (k + 1) n := by
  simp only [chain, List.tail_cons]
  exact ⟨_, _, rfl⟩

/-- All hops of a chain that starts with an inbound trace ID share that trace ID. -/
theorem trace_chain (hT : Bytes) (h : hT ≠ []) (sampled : Nat → Bool) (ids : Nat → Bytes × Bytes)
    (n : Nat) : ∀ (k : Nat) (hP : Bytes), ∀ x ∈ chain hT hP sampled ids k n, ∃ s, x = some s ∧ s.trace = hT := by
  induction n with
  | zero => intro k hP x hx; simp [chain] at hx
  | succ n ih =>
    intro k hP x hx
    simp only [chain, List.mem_cons] at hx
    rw [trace_keep _ _ _ _ _ _ h] at hx
    rcases hx with hx | hx
    · exact ⟨_, hx, rfl⟩
    · simp only [outgoing] at hx
      exact ih _ _ x hx

/-- Sampling percentages 0 and 100 are exact for every random number generator. -/
theorem sample_0 (intn : Int → Int) : TrSampler.fixedSample intn 0 = false := by
  simp [TrSampler.fixedSample, Id.run]; rfl
theorem sample_100 (intn : Int → Int) : TrSampler.fixedSample intn 100 = true := by
  simp [TrSampler.fixedSample, Id.run]; rfl

/-- What capture and wire agree on. -/
def CapRel (c : Capture) (w : Wire) : Prop :=
  c.length = w.bytes ∧
  ((w.status = none ∧ c.status = 0) ∨ ∃ s, s ≥ 200 ∧ w.status = some s ∧ c.status = s)

def finalCodes (ops : List WOp) : Prop := ∀ op ∈ ops, ∀ c, op = .writeHeader c → c ≥ 200

theorem cap_step (c : Capture) (w : Wire) (op : WOp) (h : CapRel c w)
    (hc : ∀ k, op = .writeHeader k → k ≥ 200) : CapRel (c.step op) (w.step op) := by
  obtain ⟨hl, hs⟩ := h
  cases op with
  | writeHeader k =>
    have hk := hc k rfl
    rcases hs with ⟨hw, hc0⟩ | ⟨s, hs200, hw, hcs⟩
    · refine ⟨by simp [Capture.step, Wire.step, hw, hc0, hl], Or.inr ⟨k, hk, ?_, ?_⟩⟩
      · simp [Wire.step, hw]
      · simp [Capture.step, hc0]
    · refine ⟨?_, Or.inr ⟨s, hs200, ?_, ?_⟩⟩
      · simp [Capture.step, Wire.step, hw, hcs, hl]
        split <;> simp [hl]
      · simp [Wire.step, hw]
      · have : ¬ (s < 200) := by omega
        simp [Capture.step, this, hcs]
  | write n acc =>
    rcases hs with ⟨hw, hc0⟩ | ⟨s, hs200, hw, hcs⟩
    · exact ⟨by simp [Capture.step, Wire.step, hl], Or.inr ⟨200, by omega, by simp [Wire.step, hw], by simp [Capture.step, hc0]⟩⟩
    · refine ⟨by simp [Capture.step, Wire.step, hl], Or.inr ⟨s, hs200, by simp [Wire.step, hw], ?_⟩⟩
      have : s ≠ 0 := by omega
      simp [Capture.step, this, hcs]

/-- **Response capture is exact** for every sequence of WriteHeader/Write calls with final
    (≥ 200) status codes: captured status = status actually sent (0 iff nothing was sent),
    captured length = bytes the underlying writer accepted (also when it takes less than it was offered). -/
theorem capture_exact (ops : List WOp) (h : finalCodes ops) :
    CapRel (ops.foldl Capture.step {}) (ops.foldl Wire.step {}) := by
  suffices ∀ c w, CapRel c w → CapRel (ops.foldl Capture.step c) (ops.foldl Wire.step w) from
    this {} {} ⟨rfl, Or.inl ⟨rfl, rfl⟩⟩
  induction ops with
  | nil => intro c w h; exact h
  | cons op ops ih =>
    intro c w hr
    simp only [List.foldl_cons]
    apply ih (fun o ho k hk => h o (List.mem_cons_of_mem _ ho) k hk)
    exact cap_step c w op hr (fun k hk => h op (List.mem_cons_self) k hk)

/-! ### Non-vacuity -/
example : requestID (newOpts [.header "Custom-Id", .limit 3]) [97, 98, 99, 100, 101, 102] none [70]
    = [97, 98, 99] := by decide
example : (chain [116] [] (fun _ => false) (fun k => ([], [UInt8.ofNat (48 + k)])) 0 3).map
      (fun o => o.map (fun s => (s.trace, s.span, s.parent)))
    = [some ([116], [48], none), some ([116], [49], some [48]), some ([116], [50], some [49])] := by decide
example : finalCodes [.write 3 3, .writeHeader 404, .write 9 2] ∧
    ([WOp.write 3 3, .writeHeader 404, .write 9 2].foldl Capture.step {}) = ⟨200, 5⟩ := by
  constructor
  · intro op hop c hc; simp at hop; rcases hop with rfl | rfl | rfl <;> simp_all <;> omega
  · decide

end GoaVerif.Props.C19
