import GoaVerif.Model.Transport
import Std.Data.String.ToInt
/-!
# C02 / C03 — transport of values: property theorems (proved part)
The end-to-end statement "decode (encode p) = p for every design and payload" is decided by
execution of the generated code (tie T5, vlib/c02.py). Proved here: the string transport of
integers and booleans used for path/query/header/cookie values is lossless on the whole range of
each type, refuses out-of-range text, and the location partition is exact.
-/
namespace GoaVerif.Props.C02
open GoaVerif.Transport

/-- **Integers survive the string transport**: for every integer kind and every value in its
    range, the server parses what the client formatted back to the same value. -/
theorem int_roundtrip (p : Prim) (hp : p ≠ .bool) (n : Int) (hr : inRange p n = true) :
    parse p (format p n) = some n := by
  cases p <;> first | exact absurd rfl hp | simp [parse, format, Int.toInt?_repr, hr]

/-- **Booleans survive the string transport.** -/
theorem bool_roundtrip (b : Bool) :
    parse .bool (format .bool (if b then 1 else 0)) = some (if b then 1 else 0) := by
  cases b <;> decide

/-- The server never accepts a number outside the range of the attribute's type (it answers
    `invalid_field_type` instead of wrapping around). -/
theorem parse_in_range (p : Prim) (s : String) (n : Int) (h : parse p s = some n) : inRange p n = true := by
  cases p <;> simp only [parse] at h
  all_goals first
    | (cases hs : s.toInt? with
        | none => simp [hs] at h
        | some m =>
          simp only [hs] at h
          split at h
          · rename_i hr; simp at h; subst h; exact hr
          · simp at h)
    | (unfold parseBool at h; split at h
       · simp at h; subst h; decide
       · split at h
         · simp at h; subst h; decide
         · simp at h)

/-- distinct values have distinct wire forms (no two payloads collapse onto one request) -/
theorem format_injective (p : Prim) (hp : p ≠ .bool) (a b : Int) (h : format p a = format p b) : a = b := by
  cases p <;> first | exact absurd rfl hp | exact Int.repr_injective (by simpa [format] using h)

/-- **Every attribute travels in exactly one location**, and the body carries exactly the
    attributes no mapping names. -/
theorem partition_exact (m : Mapping) (attrs : List String) (a : String) (ha : a ∈ attrs) :
    (a ∈ bodyAttrs m attrs ↔ a ∉ m.path ∧ a ∉ m.query ∧ a ∉ m.header ∧ a ∉ m.cookie) := by
  unfold bodyAttrs locate
  simp only [List.mem_filter, ha, true_and]
  by_cases h1 : a ∈ m.path <;> by_cases h2 : a ∈ m.query <;> by_cases h3 : a ∈ m.header <;>
    by_cases h4 : a ∈ m.cookie <;> simp [h1, h2, h3, h4]

/-! ### arrays in the query string and in headers -/

/-- **Request direction**: the elements of an array in the query string or in a header reach the
    server as sent, whatever they are (commas, spaces, empty strings, no element at all). -/
theorem request_elems_delivered (l : Loc) (xs : List String) : deliverElems .request l xs = xs := by
  cases l <;> rfl

/-- **Response direction, headers**: an array arrives as sent **iff it has exactly one element** —
    the generated server joins the elements into one header value and the generated client reads one
    element per value. This is the recorded finding `response/header/array-written-as-one-joined-value`
    stated exactly: the check compares what the client saw with `deliverElems`, so any OTHER
    behaviour is still reported. -/
theorem response_header_elems_delivered_iff (xs : List String) :
    deliverElems .response .header xs = xs ↔ ∃ x, xs = [x] := by
  unfold deliverElems decodeElems encodeElems
  constructor
  · intro h
    match xs, h with
    | [x], _ => exact ⟨x, rfl⟩
    | [], h => simp at h
    | _ :: _ :: _, h => simp at h
  · rintro ⟨x, rfl⟩
    rfl

/-- what the client sees instead: always exactly one element -/
theorem response_header_elems_one (xs : List String) : (deliverElems .response .header xs).length = 1 := rfl

/-! ### Non-vacuity -/
example : deliverElems .response .header ["a", "b"] = ["a, b"] := by decide
example : deliverElems .response .header [] = [""] := by decide
example : deliverElems .request .header ["a", "b"] = ["a", "b"] := by decide
example : parse .int32 (format .int32 (-2147483648)) = some (-2147483648) :=
  int_roundtrip .int32 (by decide) _ (by decide)
example : parse .uint64 (format .uint64 18446744073709551615) = some 18446744073709551615 :=
  int_roundtrip .uint64 (by decide) _ (by decide)
/-- one past the range is refused -/
example : parse .int32 (format .int32 2147483648) = none := by
  have h : inRange .int32 2147483648 = false := by decide
  simp [parse, format, Int.toInt?_repr, h]
example : locate ⟨["id"], ["q"], [], []⟩ "name" = .body ∧ locate ⟨["id"], ["q"], [], []⟩ "q" = .query := by decide

end GoaVerif.Props.C02
