import GoaVerif.Model.Encoding
import GoaVerif.Generated.TrStatus
/-!
# C15 — content negotiation: property theorems
Model `GoaVerif.Model.Encoding` (hand-written, tie T3 through `rtenc`/`drv_enc`);
`mime.ParseMediaType` is the oracle `pm`, constrained only by the explicit hypotheses
`PMIdem` and `PMConst`, which the correspondence run checks on the real `mime` package
for every string it meets.
-/
namespace GoaVerif.Props.C15
open GoaVerif.Encoding

/-- H1: a media type returned without error parses to itself. -/
def PMIdem (pm : PM) : Prop := ∀ s mt, pm s = (mt, true) → pm mt = (mt, true)

/-- H2: the five media types goa names parse to themselves. -/
def PMConst (pm : PM) : Prop :=
  ∀ c ∈ ["application/json", "application/xml", "application/gob", "text/html", "text/plain"],
    pm c = (c, true)

/-- The response encoder is never nil, whatever the Accept value, the designed content
    type, the pre-set header and the behaviour of the media type parser. -/
theorem encoder_never_nil (pm : PM) (accept ct preset : String) :
    (responseEncoder pm accept ct preset).1 ≠ none := by
  unfold responseEncoder
  repeat' split
  all_goals simp

/-- Missing or unrecognised preferences fall back to JSON. -/
theorem fallback_json (pm : PM) (accept : String)
    (h1 : (negotiate accept).1 = none)
    (h2 : (pm accept).2 = false ∨ (negotiate (pm accept).1).1 = none) :
    responseEncoder pm accept "" "" = (some .json, "application/json") := by
  have hne : (("" : String) != "") = false := by decide
  have hs : setContentType "" "application/json" = "application/json" := by decide
  unfold responseEncoder
  simp only [hne, Bool.false_eq_true, ↓reduceIte, h1, hs]
  rcases h2 with h2 | h2
  · simp [h2]
  · simp [h2]

theorem negotiate_some (a : String) (f : Fmt) (m : String) (h : negotiate a = (some f, m)) :
    (m = "application/json" ∧ f = .json) ∨ (m = "application/xml" ∧ f = .xml) ∨
    (m = "application/gob" ∧ f = .gob) ∨ (m = "text/html" ∧ f = .text) ∨ (m = "text/plain" ∧ f = .text) := by
  unfold negotiate at h
  split at h
  · simp at h; simp [h.1.symm, h.2.symm]
  split at h
  · simp at h; simp [h.1.symm, h.2.symm]
  split at h
  · simp at h; simp [h.1.symm, h.2.symm]
  split at h
  · rename_i hh; simp at h hh
    rcases hh with hh | hh <;> simp [h.1.symm, h.2.symm, hh]
  · simp at h

private theorem dec_const (pm : PM) (hc : PMConst pm) (m : String) (f : Fmt)
    (h : (m = "application/json" ∧ f = .json) ∨ (m = "application/xml" ∧ f = .xml) ∨
    (m = "application/gob" ∧ f = .gob) ∨ (m = "text/html" ∧ f = .text) ∨ (m = "text/plain" ∧ f = .text)) :
    responseDecoder pm m = f := by
  have norm : ∀ c ∈ ["application/json", "application/xml", "application/gob", "text/html", "text/plain"],
      normCT pm c = c := by
    intro c hcm; unfold normCT; rw [hc c hcm]; rfl
  rcases h with ⟨rfl, rfl⟩ | ⟨rfl, rfl⟩ | ⟨rfl, rfl⟩ | ⟨rfl, rfl⟩ | ⟨rfl, rfl⟩ <;>
  · unfold responseDecoder
    rw [norm _ (by simp)]
    decide

private theorem set_empty (m : String) : setContentType "" m = m := by
  unfold setContentType; simp

/-- **Response round trip (no pre-set header).** For every Accept value and every designed
    content type, the decoder that `ResponseDecoder` selects from the Content-Type header
    written by `ResponseEncoder` has the format of the encoder it returned. -/
theorem resp_roundtrip (pm : PM) (h1 : PMIdem pm) (h2 : PMConst pm) (accept ct : String) :
    (responseEncoder pm accept ct "").1
      = some (responseDecoder pm (responseEncoder pm accept ct "").2) := by
  have hjson : responseDecoder pm "application/json" = .json := dec_const pm h2 _ _ (by simp)
  unfold responseEncoder
  simp only [set_empty]
  split
  · -- designed content type
    split
    · rename_i hok
      have hp : pm ct = ((pm ct).1, true) := by rw [← hok]
      have := h1 ct _ hp
      simp only [responseDecoder, normCT]
      split
      · rename_i he; simp at he; rw [he]; rfl
      · rw [this]; simp
    · simp only [hjson]
  · split
    · rename_i f hn
      have : negotiate accept = (some f, (negotiate accept).2) := by rw [← hn]
      simp only [dec_const pm h2 _ f (negotiate_some accept f _ this)]
    · split
      · split
        · rename_i f hn
          have : negotiate (pm accept).1 = (some f, (negotiate (pm accept).1).2) := by rw [← hn]
          simp only [dec_const pm h2 _ f (negotiate_some _ f _ this)]
        · simp only [hjson]
      · simp only [hjson]

/-- Suffix rules agree on both sides: for a designed content type that parses, the encoder
    format is the decoder format of the parsed media type. -/
theorem suffix_rules (pm : PM) (h1 : PMIdem pm) (ct mt preset : String) (hct : ct ≠ "")
    (hp : pm ct = (mt, true)) (hmt : mt ≠ "") :
    (responseEncoder pm "" ct preset).1 = some (responseDecoder pm mt) := by
  have : (ct != "") = true := by simpa using hct
  have hm : (mt == "") = false := by simpa using hmt
  unfold responseEncoder responseDecoder normCT
  simp [this, hp, h1 ct mt hp, hm]

/-- **Pre-set header, partial.** When the handler or a middleware already set a Content-Type
    that carries no structured-syntax suffix (`+`), and appending a suffix to it still parses
    to a media type carrying that suffix (`hs`, checked on the real parser in the run), the
    round trip holds for JSON. (The full statement without these restrictions is false on the
    pinned tree: see `preset_suffix_witness`, `preset_params_witness`.) -/
theorem resp_roundtrip_preset_json_partial (pm : PM) (accept preset : String)
    (hne : preset ≠ "") (hplus : hasPlus preset = false)
    (hneg : negotiate accept = (some .json, "application/json"))
    (hs : ∀ m, pm (preset ++ "+json") = (m, true) → sfx m "+json" = true) :
    (responseEncoder pm accept "" preset).1
      = some (responseDecoder pm (responseEncoder pm accept "" preset).2) := by
  have hne' : (preset == "") = false := by simpa using hne
  have hemp : (("" : String) != "") = false := by decide
  have hset : setContentType preset "application/json" = preset ++ "+json" := by
    unfold setContentType
    have h1 : (("application/json" : String) != "application/json" && ("application/json" : String) != "application/xml") = false := by decide
    have h2 : (("application/json" : String) == "application/xml") = false := by decide
    simp only [hne', h1, hplus, h2, Bool.false_eq_true, ↓reduceIte]
  unfold responseEncoder
  simp only [hemp, Bool.false_eq_true, ↓reduceIte, hneg, hset]
  have hnonempty : (preset ++ "+json" == "") = false := by
    simp only [beq_eq_false_iff_ne, ne_eq]
    intro h; have := congrArg String.length h; simp at this
  have hsfx : sfx (preset ++ "+json") "+json" = true := by
    unfold sfx; rw [String.toList_append]; simp
  unfold responseDecoder normCT
  simp only [hnonempty, Bool.false_eq_true, ↓reduceIte]
  split
  · rename_i hok
    have hp : pm (preset ++ "+json") = ((pm (preset ++ "+json")).1, true) := by rw [← hok]
    simp [bySuffix, hs _ hp]
  · simp [bySuffix, hsfx]

/-! ### Negation witnesses for the full-strength statement with a pre-set header
(known findings, replayed on the implementation by every run) -/

/-- a parser that accepts everything unchanged -/
def pmId : PM := fun s => (s, true)
/-- a parser that strips parameters -/
def pmStrip : PM := fun s => (String.ofList (s.toList.takeWhile (· ≠ ';')), true)

/-- Pre-set `…+xml`, JSON negotiated: the body is JSON but the header keeps announcing XML. -/
theorem preset_suffix_witness :
    let r := responseEncoder pmId "" "" "application/vnd.x+xml"
    r = (some .json, "application/vnd.x+xml") ∧ responseDecoder pmId r.2 = .xml := by decide

/-- Pre-set header with parameters, XML negotiated: the suffix lands after the parameters,
    the media type seen by the decoder has no suffix and JSON is selected for an XML body. -/
theorem preset_params_witness :
    let r := responseEncoder pmStrip "application/xml" "" "a/b;c=d"
    r = (some .xml, "a/b;c=d+xml") ∧ responseDecoder pmStrip r.2 = .json := by decide

/-! ### Requests -/

/-- The request decoder decodes only the five named media types; anything else is the
    unsupported decoder, never "something else". -/
theorem request_table (pm : PM) (h : String) (f : Fmt) (hd : requestDecoder pm h = .fmt f) :
    (reqCT pm h = "application/json" ∧ f = .json) ∨ (reqCT pm h = "application/gob" ∧ f = .gob) ∨
    (reqCT pm h = "application/xml" ∧ f = .xml) ∨
    ((reqCT pm h = "text/html" ∨ reqCT pm h = "text/plain") ∧ f = .text) := by
  unfold requestDecoder reqTable at hd
  generalize reqCT pm h = ct at hd ⊢
  split at hd
  · rename_i h1; simp at hd h1; left; exact ⟨h1, hd.symm⟩
  split at hd
  · rename_i h1; simp at hd h1; right; left; exact ⟨h1, hd.symm⟩
  split at hd
  · rename_i h1; simp at hd h1; right; right; left; exact ⟨h1, hd.symm⟩
  split at hd
  · rename_i h1; simp at hd h1; right; right; right; exact ⟨h1, hd.symm⟩
  · simp at hd

/-- Conversely every other media type gets the unsupported decoder, carrying that type. -/
theorem request_unsupported (pm : PM) (h : String)
    (hn : reqCT pm h ∉ ["application/json", "application/gob", "application/xml", "text/html", "text/plain"]) :
    requestDecoder pm h = .unsupported (reqCT pm h) := by
  unfold requestDecoder reqTable
  generalize reqCT pm h = ct at hn ⊢
  simp at hn
  simp [hn]

/-- An unsupported media type is answered 415: the unsupported decoder's error has the name
    `unsupported_media_type`, for which the regenerated `StatusCode` returns 415 whatever the flags. -/
theorem unsupported_415 (r : Generated.TrStatus.ErrorResponse) (h : r.Name = "unsupported_media_type") :
    Generated.TrStatus.httpStatusCode r = 415 := by
  obtain ⟨n, i, m, a, b, c⟩ := r
  simp at h; subst h
  simp [Generated.TrStatus.httpStatusCode, Id.run]; rfl

/-- Request round trip: the request encoder writes JSON and announces JSON when the caller
    set no Content-Type; the request decoder then selects JSON. -/
theorem req_roundtrip (pm : PM) (h2 : PMConst pm) :
    requestDecoder pm (requestEncoder "").2 = .fmt (requestEncoder "").1 := by
  have := h2 "application/json" (by simp)
  unfold requestDecoder requestEncoder reqCT reqTable normCT
  simp [this]

/-! ### Non-vacuity -/
example : PMIdem pmId ∧ PMConst pmId := by
  constructor
  · intro s mt h; simp [pmId] at h ⊢
  · intro c _; rfl
example : responseEncoder pmId "application/xml" "" "" = (some .xml, "application/xml") := by decide
example : responseEncoder pmId "" "application/vnd.goa.thing+gob" "" = (some .gob, "application/vnd.goa.thing+gob") := by decide
example : requestDecoder pmId "application/yaml" = .unsupported "application/yaml" := by decide

end GoaVerif.Props.C15
