import GoaVerif.Lemmas.Conc
import GoaVerif.Model.Isolation
import GoaVerif.Generated.FactsShared
import GoaVerif.Generated.FactsSharedGen
/-!
# C20 — safe under concurrent requests

* `lockset_race_free`: for any number of threads and **every schedule**, a program that follows the
  lock discipline (`wl`: writes under the variable's mutex held exclusively, reads under it shared
  or exclusively, or the variable is frozen after mounting) never reaches a state in which two
  threads are about to touch the same variable with one of them writing.
* `table_race_free`: the same for threads that are arbitrary sequences of the accesses listed in an
  access table whose every row satisfies the policy `okAcc`.
* `shared_state_policy`: the access table regenerated from the runtime packages of /repo (gofacts,
  every run) satisfies the policy; `generated_handlers_write_nothing_shared`: the code generated
  for the run's designs assigns no package-level, captured or mutex-guarded variable at all.
* `isolation`: over frozen shared state the outcome of a request is that of processing it alone,
  for every schedule and whatever the other requests are.
The Go memory model itself (visibility without happens-before) is not modelled: the race detector
runs over the same components in every check (vlib/c20.py).
-/
namespace GoaVerif.Props.C20
open GoaVerif GoaVerif.Conc

/-- Lock discipline ⇒ no data race in any interleaving, for any number of threads. -/
theorem lockset_race_free (g : Nat → Nat) (frozen : Nat → Bool) (codes : List (List Instr))
    (h : ∀ c ∈ codes, wl g frozen [] [] c = true) (sched : List Nat) :
    ¬ Race (run (initState codes) sched) :=
  inv_no_race _ (inv_run _ sched (inv_init codes h))

/-- the code of a sequence of table accesses follows the discipline when every access is within policy -/
theorem wl_frags (frozen : Nat → Bool) (accs : List Acc) (h : ∀ a ∈ accs, okAcc frozen a = true) :
    wl id frozen [] [] (accs.flatMap frag) = true := by
  induction accs with
  | nil => rfl
  | cons a rest ih =>
    have ha := h a (List.mem_cons_self ..)
    have ih' := ih (fun b hb => h b (List.mem_cons_of_mem _ hb))
    obtain ⟨x, w, l⟩ := a
    simp only [List.flatMap_cons]
    cases w <;> cases l <;> simp_all [okAcc, frag, wl]

/-- Threads that are arbitrary sequences of accesses taken from a table within policy never race,
    in any number and under any schedule. -/
theorem table_race_free (frozen : Nat → Bool) (threads : List (List Acc))
    (h : ∀ t ∈ threads, ∀ a ∈ t, okAcc frozen a = true) (sched : List Nat) :
    ¬ Race (run (initState (threads.map (·.flatMap frag))) sched) := by
  apply lockset_race_free id frozen
  intro c hc
  obtain ⟨t, ht, rfl⟩ := List.mem_map.mp hc
  exact wl_frags frozen t (h t ht)

/-- The discipline is needed: the pinned `ErrorEncoder` assigned its captured `formatter` from
    every request without a lock — two such threads are in a race state at once. -/
theorem unlocked_write_races : Race (initState [[.write 0], [.write 0]]) :=
  ⟨0, 1, _, _, 0, true, true, by decide, rfl, rfl, rfl, rfl, Or.inl rfl⟩

/-! ### Non-vacuity: `ValidatePattern`'s accesses, any number of concurrent calls -/
def validatePatternCall : List Acc := [⟨0, false, .shared⟩, ⟨0, true, .exclusive⟩]
example : ∀ a ∈ validatePatternCall, okAcc (fun _ => false) a = true := by decide
example (n : Nat) (sched : List Nat) :
    ¬ Race (run (initState ((List.replicate n validatePatternCall).map (·.flatMap frag))) sched) :=
  table_race_free (fun _ => false) _ (fun t ht a ha => by
    rw [List.eq_of_mem_replicate ht] at ha
    revert a; decide) sched

/-! ### The regenerated access tables -/
open GoaVerif.Generated.FactsShared GoaVerif.Generated.FactsSharedGen

/-- functions that run while a server is assembled (before any request is served) -/
def mountPhase : List (String × String) :=
  [("http", "mux.Handle"), ("http", "mux.Use"), ("http", "NewMuxer")]

/-- written once under a `sync.Once` and read only after `Once.Do` returned -/
def onceGuarded : List (String × String) :=
  [("pkg", "writerToReaderAdapter.pr")]

/-- a variable is frozen when every write to it is in a mount-phase function -/
def frozenVar (tbl : List Access) (pkg var : String) : Bool :=
  tbl.all fun a => !(a.pkg == pkg && a.var == var && a.kind == "write") || mountPhase.contains (a.pkg, a.fn)

def rowOK (tbl : List Access) (a : Access) : Bool :=
  onceGuarded.contains (a.pkg, a.var) ||
  mountPhase.contains (a.pkg, a.fn) ||
  (if a.kind == "write" then a.lock == "Lock"
   else frozenVar tbl a.pkg a.var || a.lock == "Lock" || a.lock == "RLock")

/-- Every access to shared mutable state in the runtime packages of the current tree is a locked
    write, a locked (or frozen-variable) read, or happens while the server is assembled. -/
theorem shared_state_policy : accesses.all (rowOK accesses) = true := by decide

/-- the extraction found the known shared state (pattern cache, muxer tables, sampler) -/
theorem shared_state_seen :
    (accesses.any fun a => a.var == "knownPatterns") = true ∧
    (accesses.any fun a => a.var == "mux.wildcards") = true ∧
    (accesses.any fun a => a.var == "adaptiveSampler.start") = true := by decide

/-- Generated servers and clients of this run's designs assign no shared variable. -/
theorem generated_handlers_write_nothing_shared :
    generatedAccesses.all (fun a => a.kind != "write" || a.lock == "Lock") = true := by decide

/-- bridge to the model: a row within policy is an access within `okAcc` -/
def rowAcc (idx : String → String → Nat) (a : Access) : Acc :=
  ⟨idx a.pkg a.var, a.kind == "write",
   if a.lock == "Lock" then .exclusive else if a.lock == "RLock" then .shared else .none⟩

theorem rowAcc_ok (idx : String → String → Nat) (frozen : Nat → Bool) (a : Access)
    (hw : a.kind = "write" → a.lock = "Lock" ∧ frozen (idx a.pkg a.var) = false)
    (hr : a.kind ≠ "write" → frozen (idx a.pkg a.var) = true ∨ a.lock = "Lock" ∨ a.lock = "RLock") :
    okAcc frozen (rowAcc idx a) = true := by
  unfold okAcc rowAcc
  by_cases hk : a.kind = "write"
  · obtain ⟨hl, hf⟩ := hw hk
    simp [hk, hl, hf]
  · rcases hr hk with h | h | h
    · simp [hk, h]
    · simp [hk, h]
    · by_cases hL : a.lock = "Lock"
      · simp [hk, hL]
      · simp [hk, h]

/-! ### Isolation over frozen shared state -/
open GoaVerif.Isolation in
theorem shared_unchanged {σ L} (sys : System σ L) (s : Isolation.State σ L) (sched : List Nat) :
    (Isolation.run sys s sched).shared = s.shared := by
  unfold Isolation.run
  induction sched generalizing s with
  | nil => rfl
  | cons i rest ih =>
    simp only [List.foldl_cons]
    rw [ih]
    unfold Isolation.step
    cases s.locals[i]? <;> rfl

open GoaVerif.Isolation in
/-- Each request ends where it would have ended alone: the number of its own steps is all that
    the schedule contributes, the other requests contribute nothing. -/
theorem isolation {σ L} (sys : System σ L) (s : Isolation.State σ L) (sched : List Nat) (i : Nat) (l : L)
    (hi : s.locals[i]? = some l) :
    (Isolation.run sys s sched).locals[i]? = some (solo sys s.shared l (sched.count i)) := by
  unfold Isolation.run
  induction sched generalizing s l with
  | nil => simpa [solo] using hi
  | cons j rest ih =>
    simp only [List.foldl_cons]
    by_cases hji : j = i
    · subst hji
      have hstep : (Isolation.step sys s j).locals[j]? = some (sys.stepLocal s.shared l) := by
        unfold Isolation.step
        rw [hi]
        simp only [List.getElem?_set]
        have : j < s.locals.length := by
          rcases Nat.lt_or_ge j s.locals.length with h | h
          · exact h
          · rw [List.getElem?_eq_none h] at hi; cases hi
        simp [this]
      have hsh : (Isolation.step sys s j).shared = s.shared := by
        unfold Isolation.step; cases s.locals[j]? <;> rfl
      rw [ih _ _ hstep, hsh]
      simp [solo]
    · have hstep : (Isolation.step sys s j).locals[i]? = some l := by
        unfold Isolation.step
        cases hj : s.locals[j]? with
        | none => exact hi
        | some lj =>
          simp only [List.getElem?_set]
          simp [hji, hi]
      have hsh : (Isolation.step sys s j).shared = s.shared := by
        unfold Isolation.step; cases s.locals[j]? <;> rfl
      rw [ih _ _ hstep, hsh]
      simp [hji]

end GoaVerif.Props.C20
