import GoaVerif.Model.VMerge
import GoaVerif.Model.Validation
import GoaVerif.Generated.FactsValCode
import GoaVerif.Lemmas.ValCode
import GoaVerif.Lemmas.ValFuel
/-!
# C04 — validations gate user code: property theorems over the specification
`GoaVerif.Model.Validation` is the *specification* of the design's constraints, tied to the
generated servers and clients by execution (tie T5: `vlib/c04.py` sends boundary values through
generated code and compares "method invoked / error name" with `handle`). The last section ties the
single-keyword checks of the code generator to the specification by proof: the checks
`codegen.AttributeValidationCode` emits are extracted from /repo in every run (tie T2,
`Generated/FactsValCode.lean`: the generator is run on one attribute per kind x keyword x pointer cell and
its output parsed) and proved to fire exactly when the specification says the rule is broken, for every
value and bound. The recursive ASSEMBLY of the checks (objects, arrays, maps, nil guards, required
checks: codegen/validation.go) is modelled by `ValCode.compile`, tied to the real generator by tie T3
(`rtvalcode` runs `codegen.ValidationCode` on random attribute trees and prints the parsed Go in the form
`drv_valid compile` prints the model's code) and proved below to gate exactly like the specification
(`emitted_code_gates`). User types (`Validate<Type>` calls) stay tied by execution only.
-/
namespace GoaVerif.Props.C04
open GoaVerif.Validation

/-- The method is invoked iff no rule is broken. -/
theorem called_iff_valid (fuel : Nat) (a : Att) (v : Val) :
    (handle fuel a v matches .called) ↔ violations fuel a v = [] := by
  unfold handle
  cases violations fuel a v <;> simp

/-- A rejection names a rule the value really breaks. -/
theorem rejected_names_broken_rule (fuel : Nat) (a : Att) (v : Val) (x : Viol) (all : List Viol)
    (h : handle fuel a v = .rejected x all) : x ∈ violations fuel a v ∧ all = violations fuel a v := by
  unfold handle at h
  cases hv : violations fuel a v with
  | nil => simp [hv] at h
  | cons y ys => simp [hv] at h; obtain ⟨rfl, rfl⟩ := h; simp

/-! ### boundaries: inclusive vs exclusive -/

theorem minimum_is_inclusive (m : Rat') (hd : 0 < m.den) :
    rangeViol { min := some m } m = [] := by
  simp [rangeViol, Rat'.lt]

theorem maximum_is_inclusive (m : Rat') : rangeViol { max := some m } m = [] := by
  simp [rangeViol, Rat'.lt]

theorem exclusive_minimum_excludes_bound (m : Rat') : rangeViol { exMin := some m } m = [.invalidRange] := by
  simp [rangeViol, Rat'.le]

theorem exclusive_maximum_excludes_bound (m : Rat') : rangeViol { exMax := some m } m = [.invalidRange] := by
  simp [rangeViol, Rat'.le]

theorem below_minimum_rejected (m x : Rat') (h : x.lt m = true) :
    Viol.invalidRange ∈ rangeViol { min := some m } x := by
  simp [rangeViol, h]

theorem above_maximum_rejected (m x : Rat') (h : m.lt x = true) :
    Viol.invalidRange ∈ rangeViol { max := some m } x := by
  simp [rangeViol, h]

/-- lengths: exactly `minLen ≤ n ≤ maxLen` passes -/
theorem length_ok_iff (r : Rules) (n : Nat) :
    lengthViol r n = [] ↔ (∀ m, r.minLen = some m → m ≤ n) ∧ (∀ m, r.maxLen = some m → n ≤ m) := by
  unfold lengthViol
  cases r.minLen <;> cases r.maxLen <;> simp <;> omega

/-- string lengths count characters (runes), not bytes -/
example : violations 3 (.prim .string { maxLen := some 2 }) (.str "éé" true true) = [] := by decide
example : violations 3 (.prim .string { maxLen := some 2 }) (.str "abc" true true) = [.invalidLength] := by decide

/-! ### the rules apply recursively -/

/-- a broken rule inside an array element is reported for the array -/
theorem array_elements_validated (fuel : Nat) (r : Rules) (elem : Att) (vs : List Val) (v : Val) (x : Viol)
    (hv : v ∈ vs) (hx : x ∈ violations fuel elem v) :
    x ∈ violations (fuel + 1) (.arr r elem) (.arr vs) := by
  simp only [violations, List.mem_append, List.mem_flatMap]
  exact Or.inr ⟨v, hv, hx⟩

/-- … inside a map key or a map value … -/
theorem map_keys_and_values_validated (fuel : Nat) (r : Rules) (k e : Att) (kvs : List (Val × Val))
    (kv : Val × Val) (x : Viol) (hkv : kv ∈ kvs)
    (hx : x ∈ violations fuel k kv.1 ∨ x ∈ violations fuel e kv.2) :
    x ∈ violations (fuel + 1) (.map r k e) (.map kvs) := by
  simp only [violations, List.mem_append, List.mem_flatMap]
  exact Or.inr ⟨kv, hkv, hx⟩

/-- … and inside a field of a nested object. -/
theorem object_fields_validated (fuel : Nat) (fields : List (String × Bool × Att)) (vals : List (String × Val))
    (name : String) (req : Bool) (att : Att) (v : Val) (x : Viol)
    (hf : (name, req, att) ∈ fields) (hv : vals.find? (fun p => p.1 == name) = some (name, v))
    (hne : v ≠ .absent) (hx : x ∈ violations fuel att v) :
    x ∈ violations (fuel + 1) (.obj fields) (.obj vals) := by
  simp only [violations, List.mem_flatMap]
  refine ⟨(name, req, att), hf, ?_⟩
  simp only [hv]
  cases v with
  | absent => exact absurd rfl hne
  | _ => exact hx

/-- a required attribute that is absent is a `missing_field`, an optional one is not -/
theorem required_absent_is_missing (fuel : Nat) (name : String) (att : Att) :
    violations (fuel + 1) (.obj [(name, true, att)]) (.obj []) = [.missingField] ∧
    violations (fuel + 1) (.obj [(name, false, att)]) (.obj []) = [] := by
  simp [violations]

/-- a value of the wrong JSON type is an `invalid_field_type`, never silently accepted -/
theorem wrong_type_rejected (fuel : Nat) (r : Rules) (s : String) (f p : Bool) :
    violations (fuel + 1) (.prim (.number true none none) r) (.str s f p) = [.invalidFieldType] := by
  simp [violations]

/-! ### Non-vacuity: a nested design with a violation three levels down -/
def exAtt : Att :=
  .obj [("items", true, .arr { minLen := some 1 } (.obj [("qty", true, .prim (.number true (some 0) none) { min := some ⟨1, 1⟩, exMax := some ⟨10, 1⟩ })]))]
example : handle 8 exAtt (.obj [("items", .arr [.obj [("qty", .num ⟨10, 1⟩)]])]) matches .rejected .invalidRange _ := by decide
example : handle 8 exAtt (.obj [("items", .arr [.obj [("qty", .num ⟨9, 1⟩)]])]) matches .called := by decide
example : handle 8 exAtt (.obj [("items", .arr [])]) matches .rejected .invalidLength _ := by decide
example : handle 8 exAtt (.obj []) matches .rejected .missingField _ := by decide

/-! ### the checks the generator emits (regenerated table) meet the specification -/

section emitted
open GoaVerif.Generated.FactsValCode

/-- meaning of an emitted comparison -/
def fires (op : String) (x b : Int) : Bool :=
  if op = "<" then decide (x < b) else if op = "<=" then decide (x ≤ b)
  else if op = ">" then decide (x > b) else if op = ">=" then decide (x ≥ b) else false

def opOf (kw : String) : String :=
  if kw = "min" ∨ kw = "minlen" then "<" else if kw = "max" ∨ kw = "maxlen" then ">"
  else if kw = "exmin" then "<=" else ">="

/-- shape of every emitted range check: it compares the value itself with the operator of its keyword,
    reports an InvalidRangeError, and is wrapped in a nil guard exactly when the attribute is a pointer -/
theorem range_checks_shape : ∀ c ∈ checks, c.kw ∈ ["min", "max", "exmin", "exmax"] →
    c.lhs = "val" ∧ c.op = opOf c.kw ∧ c.errFn = "InvalidRangeError" ∧ c.guard = c.pointer := by
  decide +kernel

/-- shape of every emitted length check: strings are measured in runes, bytes / arrays / maps with `len` -/
theorem length_checks_shape : ∀ c ∈ checks, c.kw ∈ ["minlen", "maxlen"] →
    c.lhs = (if c.kind = "string" then "runes" else "len") ∧ c.op = opOf c.kw ∧ c.errFn = "InvalidLengthError" := by
  decide +kernel

/-- every (kind, keyword, pointer) cell of the table is present: 3 numeric kinds x 4 keywords and
    4 sized kinds x 2 keywords, each with and without pointer -/
theorem checks_table_complete : checks.length = 40 ∧
    (∀ k ∈ ["int", "float", "uint"], ∀ kw ∈ ["min", "max", "exmin", "exmax"], ∀ p ∈ [true, false],
      ∃ c ∈ checks, c.kind = k ∧ c.kw = kw ∧ c.pointer = p) ∧
    (∀ k ∈ ["string", "bytes", "array", "map"], ∀ kw ∈ ["minlen", "maxlen"], ∀ p ∈ [true, false],
      ∃ c ∈ checks, c.kind = k ∧ c.kw = kw ∧ c.pointer = p) := by
  decide +kernel

def rulesOf (kw : String) (b : Int) : Rules :=
  if kw = "min" then { min := some ⟨b, 1⟩ } else if kw = "max" then { max := some ⟨b, 1⟩ }
  else if kw = "exmin" then { exMin := some ⟨b, 1⟩ } else { exMax := some ⟨b, 1⟩ }

/-- **The emitted range checks are correct.** For every entry of the regenerated table with a range
    keyword, every integer value and every bound: the emitted comparison fires iff the specification
    reports a broken rule. (`minimum_is_inclusive` etc. above say what the specification means.) -/
theorem emitted_range_check_correct (c : Check) (hc : c ∈ checks)
    (hk : c.kw ∈ ["min", "max", "exmin", "exmax"]) (x b : Int) :
    fires c.op x b = true ↔ rangeViol (rulesOf c.kw b) ⟨x, 1⟩ ≠ [] := by
  have hs := (range_checks_shape c hc hk).2.1
  rw [hs]
  simp only [List.mem_cons, List.mem_singleton, List.not_mem_nil, or_false] at hk
  rcases hk with h | h | h | h <;> rw [h] <;>
    simp [fires, opOf, rulesOf, rangeViol, Rat'.lt, Rat'.le] <;> omega

def lenRules (kw : String) (m : Nat) : Rules :=
  if kw = "minlen" then { minLen := some m } else { maxLen := some m }

/-- **The emitted length checks are correct**: they fire iff the measured length breaks the rule. -/
theorem emitted_length_check_correct (c : Check) (hc : c ∈ checks) (hk : c.kw ∈ ["minlen", "maxlen"]) (n m : Nat) :
    fires c.op n m = true ↔ lengthViol (lenRules c.kw m) n ≠ [] := by
  have hs := (length_checks_shape c hc hk).2.1
  rw [hs]
  simp only [List.mem_cons, List.mem_singleton, List.not_mem_nil, or_false] at hk
  rcases hk with h | h <;> rw [h] <;> simp [fires, opOf, lenRules, lengthViol] <;> omega

/-- **Known finding (witness in the regenerated table).** The length check of an array, map or byte
    string is NOT wrapped in a nil guard even when the attribute may be absent: `len(nil) < min` holds, so
    an absent optional collection with MinLength >= 1 is reported invalid
    (`request/absent-optional-collection-with-min-length-rejected`). Strings are guarded. -/
theorem optional_collection_check_unguarded :
    (∀ c ∈ checks, c.kw = "minlen" → c.pointer = true → (c.guard = true ↔ c.kind = "string")) := by
  decide +kernel

end emitted

/-! ### the assembly of the checks (`Model/ValCode.lean`, tie T3 `rtvalcode` ↔ `drv_valid compile`) -/
section Assembly
open GoaVerif.ValCode

/-- **Every broken rule is reported.** For every attribute tree (objects only where the generator
    works on pointer fields: `okCtx`), every well-typed value and every rule of the specification the
    value breaks, the code emitted for an HTTP body type reports that rule — provided no attribute
    carries both exclusive bounds (`noBothEx`, known finding). -/
theorem emitted_code_complete (f : Nat) (a : Att) (v : Val) (y : Viol)
    (hok : okCtx f true a = true) (ht : typed f a v = true) (hex : noBothEx f a = true)
    (hy : y ∈ violations f a v) : y ∈ runL (compileBody f a) v :=
  compile_complete f true true a v y hok ht hex hy

/-- **A valid value passes.** The emitted code is silent on a well-typed value that breaks no rule —
    provided no absent array/map field has a positive minimum length (`collOK`, known finding). -/
theorem emitted_code_sound (f : Nat) (a : Att) (v : Val)
    (hok : okCtx f true a = true) (ht : typed f a v = true) (hc : collOK f a v = true)
    (hv : violations f a v = []) : runL (compileBody f a) v = [] :=
  compile_sound f true true a v hok ht hc hv

/-- **The emitted code gates exactly like the specification**: the validation code of a body type lets
    a (decoded, hence well-typed) value through iff the value satisfies the design. -/
theorem emitted_code_gates (f : Nat) (a : Att) (v : Val)
    (hok : okCtx f true a = true) (ht : typed f a v = true) (hex : noBothEx f a = true)
    (hc : collOK f a v = true) :
    runL (compileBody f a) v = [] ↔ (handle f a v matches .called) := by
  rw [called_iff_valid]
  constructor
  · intro h
    cases hv : violations f a v with
    | nil => rfl
    | cons y ys =>
      have := emitted_code_complete f a v y hok ht hex (by simp [hv])
      simp [h] at this
  · exact emitted_code_sound f a v hok ht hc

/-- The same for the code emitted for a request parameter or header (`AttributeValidationCode` with
    `Pointer = false`: a primitive, or an array / map of primitives; `req` = required or defaulted, so
    the variable is a value and the checks are unguarded, otherwise every check carries its own nil
    guard): on a present well-typed value it is silent iff the specification reports no violation. -/
theorem emitted_param_code_gates (f : Nat) (req : Bool) (a : Att) (v : Val)
    (hok : okCtx f false a = true) (ht : typed f a v = true) (hex : noBothEx f a = true)
    (hc : collOK f a v = true) :
    runL (compile f false req a) v = [] ↔ violations f a v = [] := by
  constructor
  · intro h
    cases hv : violations f a v with
    | nil => rfl
    | cons y ys =>
      have := compile_complete f false req a v y hok ht hex (by simp [hv])
      simp [h] at this
  · exact compile_sound f false req a v hok ht hc

/-- an absent optional parameter is never rejected by its own checks: they are all nil-guarded -/
theorem absent_optional_param_passes (f : Nat) (k : Kind) (r : Rules) (hk : k ≠ .bytes) :
    runL (compile (f + 1) false false (.prim k r)) .absent = [] := by
  simp only [compile, Bool.false_or, Bool.not_false]
  cases k with
  | boolean => simp [primChecks]
  | number i lo hi =>
    unfold primChecks
    cases r.hasEnum <;> simp [runL_append, range_absent]
  | string =>
    unfold primChecks
    cases r.hasEnum <;> cases r.format <;> cases r.pattern <;> simp [runL_append, rune_absent]
  | bytes => exact absurd rfl hk

/-- **Skipping `Validate<Type>` is sound exactly for types without validations.** The generator calls the
    validation function of a user type only if `hasValidations` finds a validation on some attribute
    reachable from it. For a type without any (`noRules`) the generator would emit no code at all, and no
    well-typed value violates it — so nothing is lost by not calling. -/
theorem pruned_type_needs_no_call (f : Nat) (p req : Bool) (a : Att) (v : Val)
    (hn : noRules f a = true) (ht : typed f a v = true) :
    compile f p req a = [] ∧ violations f a v = [] :=
  ⟨no_rules_no_code f p req a hn, no_rules_no_violations f a v hn ht⟩

/-- … and only for those: a type whose single validation is a required primitive attribute does have
    something to validate (the defect repaired by b4fbe22: for map values `hasValidations` was asked with
    `Pointer = false`, skipped required primitives, and the call was not emitted). -/
def requiredOnly : Att := .obj [("g0", true, .prim (.number false none none) {})]
theorem required_only_type_must_be_validated :
    noRules 3 requiredOnly = false ∧ violations 3 requiredOnly (.obj []) = [.missingField] ∧
    runL (compileBody 3 requiredOnly) (.obj []) = [.missingField] := by decide

/-- **The fuel of the recursive definitions is immaterial.** `violations` and `compile` take a fuel argument
    only because their types are nested; with any fuel above the depth of the value (of the attribute) the verdict
    (the code) is the same — the theorems above therefore speak about THE specification and THE emitted code,
    and the drivers may pick any sufficient fuel. -/
theorem fuel_is_immaterial (f g : Nat) (a : Att) (v : Val)
    (hf : vdepth v < f) (hg : vdepth v < g) (haf : adepth a < f) (hag : adepth a < g) :
    violations f a v = violations g a v ∧ compileBody f a = compileBody g a :=
  ⟨violations_fuel_indep f g a v hf hg, compile_fuel_indep f g true true a haf hag⟩

/-- the two hypotheses are needed — the emitted code itself is wrong there (both are known findings,
    reproduced on generated servers by `vlib/c04.py`): -/
def bothEx : Att := .obj [("n", true, .prim (.number true none none) { exMin := some ⟨0, 1⟩, exMax := some ⟨10, 1⟩ })]
theorem both_exclusive_bounds_second_unchecked :
    violations 3 bothEx (.obj [("n", .num ⟨11, 1⟩)]) = [.invalidRange] ∧
    runL (compileBody 3 bothEx) (.obj [("n", .num ⟨11, 1⟩)]) = [] := by decide

def optList : Att := .obj [("tags", false, .arr { minLen := some 1 } (.prim .string {}))]
theorem absent_optional_collection_rejected :
    violations 3 optList (.obj []) = [] ∧ runL (compileBody 3 optList) (.obj []) = [.invalidLength] := by decide

/-- non-vacuity: a nested attribute and values meeting every hypothesis, one valid and one not -/
def asmAtt : Att :=
  .obj [("id", true, .prim (.number true none none) { min := some ⟨1, 1⟩ }),
        ("tags", false, .arr { maxLen := some 2 } (.prim .string { minLen := some 2, pattern := true })),
        ("dims", true, .map {} (.prim .string { enumStrs := ["w", "h"], hasEnum := true }) (.prim (.number false none none) { exMin := some ⟨0, 1⟩ })),
        ("owner", false, .obj [("name", true, .prim .string { maxLen := some 3 }), ("blob", false, .prim .bytes { minLen := some 1 })])]
def asmGood : Val := .obj [("id", .num ⟨3, 1⟩), ("dims", .map [(.str "w" true true, .num ⟨1, 2⟩)]), ("owner", .obj [("name", .str "ab" true true)])]
def asmBad : Val := .obj [("id", .num ⟨0, 1⟩), ("tags", .arr [.str "a" true false]), ("dims", .map [(.str "x" true true, .num ⟨0, 1⟩)]), ("owner", .obj [])]
example : okCtx 5 true asmAtt = true ∧ noBothEx 5 asmAtt = true ∧ typed 5 asmAtt asmGood = true ∧ collOK 5 asmAtt asmGood = true ∧
    typed 5 asmAtt asmBad = true ∧ collOK 5 asmAtt asmBad = true := by decide
example : runL (compileBody 5 asmAtt) asmGood = [] ∧ violations 5 asmAtt asmGood = [] := by decide
example : runL (compileBody 5 asmAtt) asmBad =
    [.invalidRange, .invalidPattern, .invalidLength, .invalidEnumValue, .invalidRange, .missingField] := by decide

end Assembly

/-! ### Combining the validations of two levels (`ValidationExpr.Merge`)
`Model/VMerge.lean`, tied statement for statement by `rtvalcode vmerge` ↔ `drv_valid vmerge`. Used for an alias type and the attribute of
that type, and (since 67e3a51) for a design attribute and its HTTP mapping. -/
section merge
open GoaVerif.VMerge

/-- keywords that are text (format, pattern, enum): the receiver's own wins, a missing one is taken from the other level — so a format
    from one level and a pattern from the other BOTH hold -/
theorem merge_text_keywords (v o : V) :
    (merge v o).format = (if v.format == "" then o.format else v.format) ∧
    (merge v o).pattern = (if v.pattern == "" then o.pattern else v.pattern) ∧
    (merge v o).values = (if v.values.isNone then o.values else v.values) := ⟨rfl, rfl, rfl⟩

theorem merge_keeps_format_and_pattern (v o : V) (hf : v.format ≠ "") (hp : v.pattern = "") (ho : o.pattern ≠ "") :
    (merge v o).format = v.format ∧ (merge v o).pattern = o.pattern := by
  simp [merge, hf, hp]

/-- a bound given at one level only is kept -/
theorem merge_bound_one_level (v o : V) (h : v.min = none) : (merge v o).min = o.min := by
  simp [merge, pickSmaller, h]

/-- lower bounds and minimum lengths given at both levels: the SMALLER one; upper bounds and maximum lengths: the LARGER one
    (the combined rule is the looser of the two, never stricter than the receiver's own) -/
theorem merge_bounds_both_levels (v o : V) (a b : Int) :
    (v.min = some a → o.min = some b → (merge v o).min = some (min a b)) ∧
    (v.max = some a → o.max = some b → (merge v o).max = some (max a b)) ∧
    (v.minLen = some a → o.minLen = some b → (merge v o).minLen = some (min a b)) ∧
    (v.maxLen = some a → o.maxLen = some b → (merge v o).maxLen = some (max a b)) := by
  refine ⟨?_, ?_, ?_, ?_⟩ <;> intro h1 h2 <;> simp only [merge, pickSmaller, pickLarger, h1, h2] <;> split <;> simp <;> omega

/-- As written in /repo the EXCLUSIVE maximum is the odd one out: the smaller (stricter) of the two is kept, where `Maximum` keeps the larger. -/
theorem merge_exclusive_maximum_keeps_smaller :
    (merge { exMax := some 5 } { exMax := some 3 }).exMax = some 3 ∧ (merge { max := some 5 } { max := some 3 }).max = some 5 := by decide

theorem addRequired_mem (h rs : List String) (x : String) : x ∈ addRequired h rs ↔ x ∈ h ∨ x ∈ rs := by
  induction rs generalizing h with
  | nil => simp [addRequired]
  | cons r rs ih =>
    unfold addRequired
    split
    · rename_i hc
      have : r ∈ h := by simpa using hc
      rw [ih]; constructor
      · rintro (hx | hx); exact Or.inl hx; exact Or.inr (List.mem_cons_of_mem _ hx)
      · rintro (hx | hx)
        · exact Or.inl hx
        · rcases List.mem_cons.mp hx with rfl | hx
          · exact Or.inl this
          · exact Or.inr hx
    · rw [ih]; simp only [List.mem_append, List.mem_cons, List.not_mem_nil, or_false]
      constructor
      · rintro ((hx | hx) | hx); exact Or.inl hx; exact Or.inr (Or.inl hx); exact Or.inr (Or.inr hx)
      · rintro (hx | hx | hx); exact Or.inl (Or.inl hx); exact Or.inl (Or.inr hx); exact Or.inr hx

/-- the required names of both levels, each once when the receiver's were -/
theorem merge_required (v o : V) (x : String) : x ∈ (merge v o).required ↔ x ∈ v.required ∨ x ∈ o.required :=
  addRequired_mem v.required o.required x

example : merge { format := "date" } { pattern := "^20", min := some 3 } = { format := "date", pattern := "^20", min := some 3 } := by decide
end merge

end GoaVerif.Props.C04
