import GoaVerif.Lemmas.Scope
/-!
# C01 (proved core) — unique identifier allocation
Model `GoaVerif.Model.Scope` of `codegen.NameScope` (tie T3 `rtscope` ↔ `drv_scope`).
The rest of C01 (every accepted design compiles) is decided by translation validation with
the Go tool chain as the oracle — see vlib/c01.py.
-/
namespace GoaVerif.Props.C01
open GoaVerif.Scope

/-- `Unique` never returns a name that is already in use, whatever the scope contains; the
    probing loop always terminates with a fresh name (`probe_fresh`). -/
theorem unique_fresh (s : Scope) (name : String) (sfx : Option String) :
    (unique s name sfx).2 ∉ s.counts.keys := (unique_spec s name sfx).1

/-- the returned name is reserved afterwards and nothing is forgotten -/
theorem unique_reserves (s : Scope) (name : String) (sfx : Option String) :
    (unique s name sfx).2 ∈ (unique s name sfx).1.counts.keys ∧
    ∀ x ∈ s.counts.keys, x ∈ (unique s name sfx).1.counts.keys := by
  have h := (unique_spec s name sfx).2.1
  exact ⟨(h _).mpr (Or.inr rfl), fun x hx => (h x).mpr (Or.inl hx)⟩

/-- consistency of the two tables -/
def Inv (s : Scope) : Prop :=
  (∀ e ∈ s.names, e.2 ∈ s.counts.keys) ∧ (s.names.map (·.2)).Nodup ∧ (s.names.map (·.1)).Nodup

theorem inv_empty : Inv {} := ⟨by simp, by simp, by simp⟩

theorem lookup_mem (s : Scope) (h n : String) (hl : lookupName s h = some n) : (h, n) ∈ s.names := by
  unfold lookupName at hl
  cases hf : s.names.find? (fun e => e.1 == h) with
  | none => simp [hf] at hl
  | some e =>
    simp only [hf, Option.some.injEq] at hl
    have hm := List.mem_of_find?_eq_some hf
    have hk := List.find?_some hf
    simp only [beq_iff_eq] at hk
    rw [← hl, ← hk]; exact hm

theorem lookup_none (s : Scope) (h : String) (hl : lookupName s h = none) : h ∉ s.names.map (·.1) := by
  unfold lookupName at hl
  cases hf : s.names.find? (fun e => e.1 == h) with
  | some e => simp [hf] at hl
  | none =>
    intro hm
    obtain ⟨e, he, hk⟩ := List.mem_map.mp hm
    have := List.find?_eq_none.mp hf e he
    simp [hk] at this

/-- one step preserves the invariant, keeps every reserved name and every hash binding -/
theorem step_inv (s : Scope) (op : Op) (hi : Inv s) :
    Inv (step s op).1 ∧ (∀ x ∈ s.counts.keys, x ∈ (step s op).1.counts.keys) ∧
    (∀ e ∈ s.names, e ∈ (step s op).1.names) := by
  obtain ⟨h1, h2, h3⟩ := hi
  cases op with
  | unique n sfx =>
    obtain ⟨_, hk, hn⟩ := unique_spec s n sfx
    simp only [step]
    refine ⟨⟨?_, by rw [hn]; exact h2, by rw [hn]; exact h3⟩, fun x hx => (hk x).mpr (Or.inl hx), by rw [hn]; exact fun e he => he⟩
    intro e he
    rw [hn] at he
    exact (hk _).mpr (Or.inl (h1 e he))
  | hashed hsh n sfx =>
    simp only [step, hashedUnique]
    cases hl : lookupName s hsh with
    | some nm => exact ⟨⟨h1, h2, h3⟩, fun x hx => hx, fun e he => he⟩
    | none =>
      obtain ⟨hfresh, hk, hn⟩ := unique_spec s n sfx
      simp only
      refine ⟨⟨?_, ?_, ?_⟩, fun x hx => (hk x).mpr (Or.inl hx), ?_⟩
      · intro e he
        rcases List.mem_cons.mp he with rfl | he
        · exact (hk _).mpr (Or.inr rfl)
        · rw [hn] at he; exact (hk _).mpr (Or.inl (h1 e he))
      · rw [hn]
        simp only [List.map_cons, List.nodup_cons]
        refine ⟨?_, h2⟩
        intro hm
        obtain ⟨e, he, heq⟩ := List.mem_map.mp hm
        exact hfresh (heq ▸ h1 e he)
      · rw [hn]
        simp only [List.map_cons, List.nodup_cons]
        exact ⟨lookup_none s hsh hl, h3⟩
      · intro e he; rw [hn]; exact List.mem_cons_of_mem _ he

theorem runOps_inv (ops : List Op) (s : Scope) (hi : Inv s) :
    Inv (runOps s ops).1 ∧ (∀ x ∈ s.counts.keys, x ∈ (runOps s ops).1.counts.keys) ∧
    (∀ e ∈ s.names, e ∈ (runOps s ops).1.names) := by
  induction ops generalizing s with
  | nil => exact ⟨hi, fun x hx => hx, fun e he => he⟩
  | cons op ops ih =>
    obtain ⟨i1, k1, n1⟩ := step_inv s op hi
    obtain ⟨i2, k2, n2⟩ := ih _ i1
    exact ⟨i2, fun x hx => k2 x (k1 x hx), fun e he => n2 e (n1 e he)⟩

/-- **Same hash, same name — for ever.** Once a hash has a name, every later `HashedUnique`
    call with that hash returns it, whatever happened in between. -/
theorem hashed_stable (s : Scope) (hi : Inv s) (h n : String) (hl : lookupName s h = some n)
    (ops : List Op) (name : String) (sfx : Option String) :
    (hashedUnique (runOps s ops).1 h name sfx).2 = n := by
  obtain ⟨⟨_, _, j3⟩, _, nn⟩ := runOps_inv ops s hi
  have hm := nn _ (lookup_mem s h n hl)
  unfold hashedUnique
  cases hl2 : lookupName (runOps s ops).1 h with
  | none => exact absurd (List.mem_map.mpr ⟨(h, n), hm, rfl⟩) (lookup_none _ h hl2)
  | some n' =>
    simp only
    have hm2 := lookup_mem _ h n' hl2
    -- hashes are distinct keys: both bindings are the same entry
    have := nodup_map_inj (·.1) _ j3 _ _ hm hm2 rfl
    exact (Prod.mk.inj this).2.symm

/-- **Different hashes, different names.** -/
theorem hashed_injective (s : Scope) (hi : Inv s) (h₁ h₂ n : String)
    (l1 : lookupName s h₁ = some n) (l2 : lookupName s h₂ = some n) : h₁ = h₂ := by
  have m1 := lookup_mem s h₁ n l1
  have m2 := lookup_mem s h₂ n l2
  have := nodup_map_inj (·.2) _ hi.2.1 _ _ m1 m2 rfl
  exact (Prod.mk.inj this).1

/-- **Every history of `Unique` calls returns pairwise distinct names**, none of which was in
    use before — for any names, suffixes and any starting scope. -/
theorem unique_history_distinct (calls : List (String × Option String)) (s : Scope) :
    let out := (runOps s (calls.map fun c => Op.unique c.1 c.2)).2
    out.Nodup ∧ ∀ x ∈ out, x ∉ s.counts.keys := by
  induction calls generalizing s with
  | nil => simp [runOps]
  | cons c cs ih =>
    obtain ⟨hfresh, hk, _⟩ := unique_spec s c.1 c.2
    obtain ⟨hnd, hout⟩ := ih (unique s c.1 c.2).1
    simp only [List.map_cons, runOps, step]
    refine ⟨List.nodup_cons.mpr ⟨?_, hnd⟩, ?_⟩
    · intro hm
      exact hout _ hm ((hk _).mpr (Or.inr rfl))
    · intro x hx
      rcases List.mem_cons.mp hx with rfl | hx
      · exact hfresh
      · intro hxs
        exact hout x hx ((hk x).mpr (Or.inl hxs))

/-! ### Non-vacuity -/
example : (runOps {} [.unique "Foo" none, .unique "Foo" (some "Payload"), .unique "Foo" (some "Payload"),
    .unique "Foo" none, .hashed "h1" "Foo" none, .hashed "h1" "Bar" none]).2
    = ["Foo", "FooPayload", "FooPayload2", "Foo2", "Foo3", "Foo3"] := by decide +kernel

end GoaVerif.Props.C01
