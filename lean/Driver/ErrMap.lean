import GoaVerif.Drive.Loop
import GoaVerif.Drive.ErrorMap
def main : IO Unit := GoaVerif.Drive.runDriver GoaVerif.Drive.ErrorMap.handle
