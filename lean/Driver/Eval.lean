import GoaVerif.Drive.Loop
import GoaVerif.Drive.Eval
def main : IO Unit := GoaVerif.Drive.runDriver GoaVerif.Drive.Eval.handle
