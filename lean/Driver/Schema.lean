import GoaVerif.Drive.Loop
import GoaVerif.Drive.Schema
def main : IO Unit := GoaVerif.Drive.runDriver GoaVerif.Drive.Schema.handle
