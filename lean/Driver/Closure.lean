import GoaVerif.Drive.Loop
import GoaVerif.Drive.Closure
def main : IO Unit := GoaVerif.Drive.runDriver GoaVerif.Drive.Closure.handle
