import GoaVerif.Drive.Loop
import GoaVerif.Drive.OpenAPI
def main : IO Unit := GoaVerif.Drive.runDriver GoaVerif.Drive.OpenAPI.handle
