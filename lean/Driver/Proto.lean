import GoaVerif.Drive.Loop
import GoaVerif.Drive.Proto
def main : IO Unit := GoaVerif.Drive.runDriver GoaVerif.Drive.Proto.handle
