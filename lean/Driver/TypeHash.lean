import GoaVerif.Drive.Loop
import GoaVerif.Drive.TypeHash
def main : IO Unit := GoaVerif.Drive.runDriver GoaVerif.Drive.TypeHash.handle
