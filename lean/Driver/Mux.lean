import GoaVerif.Drive.Loop
import GoaVerif.Drive.Mux
def main : IO Unit := GoaVerif.Drive.runDriver GoaVerif.Drive.Mux.handle
