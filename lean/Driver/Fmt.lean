import GoaVerif.Drive.Loop
import GoaVerif.Drive.Formats
def main : IO Unit := GoaVerif.Drive.runDriver GoaVerif.Drive.Formats.handle
