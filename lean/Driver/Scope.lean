import GoaVerif.Drive.Loop
import GoaVerif.Drive.Scope
def main : IO Unit := GoaVerif.Drive.runDriver GoaVerif.Drive.Scope.handle
