import GoaVerif.Drive.Loop
import GoaVerif.Drive.Security
def main : IO Unit := GoaVerif.Drive.runDriver GoaVerif.Drive.Security.handle
