import GoaVerif.Drive.Loop
import GoaVerif.Drive.Encoding
def main : IO Unit := GoaVerif.Drive.runDriver GoaVerif.Drive.Encoding.handle
