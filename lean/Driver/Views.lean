import GoaVerif.Drive.Loop
import GoaVerif.Drive.Views
def main : IO Unit := GoaVerif.Drive.runDriver GoaVerif.Drive.Views.handle
