import GoaVerif.Drive.Loop
import GoaVerif.Drive.FS
def main : IO Unit := GoaVerif.Drive.runDriver GoaVerif.Drive.FS.handle
