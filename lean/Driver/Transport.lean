import GoaVerif.Drive.Loop
import GoaVerif.Drive.Transport
def main : IO Unit := GoaVerif.Drive.runDriver GoaVerif.Drive.Transport.handle
