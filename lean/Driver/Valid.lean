import GoaVerif.Drive.Loop
import GoaVerif.Drive.Validation
def main : IO Unit := GoaVerif.Drive.runDriver GoaVerif.Drive.Validation.handle
