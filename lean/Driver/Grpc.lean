import GoaVerif.Drive.Loop
import GoaVerif.Drive.Grpc
def main : IO Unit := GoaVerif.Drive.runDriver GoaVerif.Drive.Grpc.handle
