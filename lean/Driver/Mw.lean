import GoaVerif.Drive.Loop
import GoaVerif.Drive.Middleware
def main : IO Unit := GoaVerif.Drive.runDriver GoaVerif.Drive.Middleware.handle
