import GoaVerif.Drive.Loop
import GoaVerif.Drive.Errors
def main : IO Unit := GoaVerif.Drive.runDriver GoaVerif.Drive.Errors.handle
