import GoaVerif.Prelude.Hex
import GoaVerif.Model.Errors
